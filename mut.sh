#!/bin/bash
# mut.sh <file rel to /repo> <sed expr> <pkgs> <harness regex>  : apply a one-line mutation, run harnesses, revert
set -u
cd /repo && sed -i "$2" "$1" && git diff --stat | tail -1
/verif/bin/gosym -pkgs "$3" -run "$4" -out /tmp/mut.json >/dev/null 2>&1
git -C /repo checkout -- .
python3 - <<'PY'
import json
d=json.load(open('/tmp/mut.json'))
if d.get('error'): print('ERROR',d['error'][:500])
for h in d.get('harnesses') or []:
    vs=h['violations'] or []
    print(h['harness'],'paths',h['paths'],'viol',len(vs),sorted({v['assertion'] for v in vs}),h['inconclusive'],h['unsupported'])
PY
