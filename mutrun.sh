#!/bin/bash
# mutrun.sh <patch file> <pkgs> <harness regex> [extra]: development helper - run harnesses against a scratch worktree of /repo with the patch applied
wt=/tmp/wt_mutrun_$$
git -C /repo worktree add -q --detach $wt HEAD || exit 2
( cd $wt && git apply "$1" ) || { echo "patch does not apply"; git -C /repo worktree remove --force $wt; exit 2; }
REPO=$wt /verif/runat.sh "$2" "$3" "${4:-}" 2>&1 | cut -c1-400 | tail -${TAILN:-6}
git -C /repo worktree remove --force $wt
