# Per-property configuration of the solver-based checks (see DESIGN.md section 3).
#   pkgs        packages loaded (the harness overlay is injected into them)
#   bounds      stated bounds per tier (copied into the evidence)
#   level_text  what the check decides; level_note: what is assumed / trusted
NOT_APPLICABLE = {}

CHECKS = {
    "C02": {
        "pkgs": ["./pkg/framer", "./pkg/netceptor", "./pkg/backends"],
        "bounds": {
            "quick": "payload 0..3 bytes (framing: 2 frames, every chunking of the stream); service names of 0,1,2,8 bytes; node names 1 byte; 3-node chain",
            "thorough": "payload 0..6 bytes; otherwise as quick",
        },
        "assumptions": ["name hash (highwayhash) replaced by an injective function of names <= 7 bytes",
                        "service/node names contain no NUL byte (documented precondition)"],
        "outside": ["concurrent senders", "websocket/UDP kernel paths", "hash collisions", "payloads longer than the bound"],
        "level_text": "Bounded symbolic execution of the real codec, dispatch, PacketConn and framer code: for every payload/header "
                      "within the bound and every chunking of a two-frame stream the assertions hold (z3 unsat), else a concrete "
                      "counterexample is replayed natively.",
        "level_note": "Trusted: go/ssa lowering, the gosym interpreter, z3; stubs: logger (no effect), highwayhash (injective), "
                      "context (model). Bounds as stated in the evidence; behaviour beyond them is not claimed.",
    },
}
