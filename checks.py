# Per-property configuration of the solver-based checks (see DESIGN.md section 3).
#   pkgs        packages loaded (the harness overlay is injected into them)
#   bounds      stated bounds per tier (copied into the evidence)
#   level_text  what the check decides; level_note: what is assumed / trusted
NOT_APPLICABLE = {}

_TRUST = ("Trusted: go/ssa lowering, the gosym interpreter, z3; stubs listed in the evidence (logger = no effect, "
          "highwayhash = injective function, context = model, encoding/json = value-preserving blob, timers fire only at quiescence). "
          "Bounds as stated in the evidence; behaviour beyond them is not claimed.")

CHECKS = {
    "C06": {
        "pkgs": ["./pkg/netceptor"],
        "schedule_harnesses": ["Verif_C06_concurrent_deliveries"],
        "no_native": ["Verif_C06_seen_table_keeps_entries_for_the_full_expiry_time"],
        "thorough": {"maxpaths": 400000},
        "bounds": "one update (and one re-delivery) from an arbitrary node state over the universe {A=self,B,C,D}; epochs, sequences, "
                  "costs arbitrary 64-bit/real values; 7 edges with symbolic presence; update lists <= 3 neighbours",
        "assumptions": ["update IDs are unique per update (8 random characters)", "float costs encoded as reals"],
        "outside": ["global termination of flooding (follows per node from the step lemmas; not solver-checked)", "loss of update-id uniqueness"],
        "level_text": "Inductive step by bounded symbolic execution of the real handleRoutingUpdate/flood code from an arbitrary "
                      "symbolic pre-state: replay/stale updates change nothing and are not relayed, accepted ones install exactly the "
                      "update and are relayed once, never back; self-origin handling (duplicate detection) is decided too.",
        "level_note": _TRUST,
    },
    "C07": {
        "pkgs": ["./pkg/netceptor", "./pkg/backends", "./pkg/framer"],
        "schedule_harnesses": ["Verif_C07_updates_while_the_table_is_being_rebuilt"],
        "bounds": "one arbitrary datagram before the handshake, and one after a correct handshake, drawn from: raw bytes 0..2, data packet with "
                  "arbitrary 36-byte header, routing update / service advertisement with every field arbitrary (strings <= 1 byte, maps <= 2 "
                  "entries, embedded record nil or present), reject; routing-table computation over 3 nodes with arbitrary real costs, unwind 12; "
                  "stream backends: every byte stream of <= 5 bytes in 1-2 chunks through the real framer (every 16-bit length prefix)",
        "assumptions": ["JSON bodies that fail to decode are represented by the decode-error path"],
        "outside": ["float rounding: costs are reals in the encoding, so absorption such as 2.0 + 1e-20 == 2.0 is invisible (seeded change C07g is NOT detected)",
                    "memory exhaustion by large frames", "scheduling between several sessions", "kernel / websocket library"],
        "level_text": "Bounded symbolic execution of the real runProtocol loop (with its reader/writer/initial-message goroutines as engine "
                      "threads) on every datagram of the stated classes: no panic, no unbounded recursion, no deadlock, no lock left held, "
                      "the session ends cleanly; routing-table computation terminates within the unwinding bound.",
        "level_note": _TRUST,
    },
    "C11": {
        "pkgs": ["./pkg/netceptor"],
        "bounds": "one arbitrary first routing message (every field arbitrary, forwarder drawn from {\"\",self,B,C(already connected),D}) against "
                  "allow-list {none,[B],[D,\"\"]}, optional per-node cost override, arbitrary positive costs; after a correct handshake one or two "
                  "further routing updates with every field arbitrary; cancellation parked at each blocking point of the establishment and, with "
                  "one pre-emption, at every visible operation; two simultaneous sessions with one id under 2 pre-emptions",
        "assumptions": ["backend connection cost > 0 (checked by runProtocol itself)"],
        "outside": ["more than two simultaneous sessions", "schedules needing more than 2 pre-emptions"],
        "schedule_harnesses": ["Verif_C11_cancel_during_establishment", "Verif_C11_same_id_race"],
        "level_text": "Bounded symbolic execution of the real runProtocol (reader/writer/initial-message goroutines as engine threads): a session "
                      "is established iff the announced id is non-empty, not ours, allowed and not yet connected, else rejected with the node "
                      "unchanged; misbehaving peers are evicted; whenever a session ends or is cancelled nothing of it is left behind.",
        "level_note": _TRUST,
    },
    "C16": {
        "pkgs": ["./pkg/netceptor"],
        "bounds": "one packet (sender local / neighbour / remote, service names 0,1,2,8 bytes, payload <= 1 byte) against a target service that is "
                  "unbound, bound and open, or bound and closed, with and without a dropping firewall rule; one unreachable notification with "
                  "arbitrary 1-2 byte address fields and any problem text arriving at a node with 3 real sockets and one monitored dial",
        "assumptions": ["name hash injective"],
        "outside": ["the dial actually returning early (quic-go reacting to the cancelled context)", "broker fan-out under concurrent publishers"],
        "level_text": "Bounded symbolic execution of handleMessageData's unknown-service branch, sendUnreachable/handleUnreachable, the real "
                      "ListenPacket/StartUnreachable/SubscribeUnreachable broker plumbing and monitorUnreachable: exactly one 'service unknown' "
                      "notice with the original addresses goes to a remote sender (an error to a local one), nothing on a policy drop; only the "
                      "socket named as source sees a notification; a dial is abandoned only by a notice about the dialled address.",
        "level_note": _TRUST,
    },
    "C18": {
        "pkgs": ["./pkg/netceptor"],
        "schedule_harnesses": ["Verif_C18_close_during_advertisement_pass"],
        "no_native": ["Verif_C18_withdrawal_survives_a_stalled_link"],
        "bounds": "one advertisement/withdrawal with arbitrary timestamp, type, tag against a table that holds / does not hold / has seen withdrawn "
                  "the same or another (node, service); two and three messages about one service with distinct timestamps in every delivery order; "
                  "one local advertised listener opened and closed through the real API; MESH: three real nodes in a line (real runProtocol, in-order "
                  "sessions, real flooding), the owner's service opened before/after the third node joined, the relay replaced by a fresh node or not, "
                  "0-2 advertisement periods in between, the service closed or not, one final period; one (run-to-block) interleaving",
        "assumptions": ["origin timestamps of different messages about one service are distinct (nanosecond clock of one owner)",
                        "mesh harness: tick runners replaced by a pump that serves a request at the next round; clock readings strictly increasing"],
        "outside": ["network-wide convergence beyond the 3-node line of the mesh harness (other topologies, delivery interleavings, node death - advertisements "
                    "of a node that disappeared are not purged by the code and the property does not quantify over node stops)",
                    "clock skew between owners (timestamps of one service come from one owner)"],
        "level_text": "Bounded symbolic execution of handleServiceAdvertisement, Add/RemoveLocalServiceAdvertisement, sendServiceAds and the socket "
                      "open/close path: a message not newer than what is known (record or withdrawal) changes nothing and is not relayed, a newer one "
                      "replaces/removes the record and is relayed once, not back; any delivery order of 2-3 messages ends as the latest one alone; "
                      "in a 3-node line every node ends up listing the owner's service iff it is open, for every bounded history.",
        "level_note": _TRUST,
    },
    "C12": {
        "pkgs": ["./pkg/netceptor"],
        "schedule_harnesses": ["Verif_C12_rules_replaced_during_evaluation"],
        "bounds": {
            "quick": "regex rules: 59 patterns of a bounded grammar over {a,b,.,[ab],[^a],(?i),*,+,?,|,(),^,$} x every ASCII subject of 0..3 bytes x 4 fields; "
                     "literal rules: 2 rules, 5 field subsets each, arbitrary literals, 3 actions, 3 key spellings, 6 representative packets; malformed: 12 "
                     "concrete shapes + every unknown key of 1..11 bytes + every unknown action of 1..6 bytes",
            "thorough": "as quick with 247 patterns, subjects of 0..4 bytes; 2 rules with every field subset, and 3 rules with 3 subsets",
        },
        "common": {"maxpaths": 400000},
        "assumptions": ["subject strings and symbolic keys/actions are ASCII (bytes < 0x80)", "rule literals do not start with '/' in the literal-rule harness"],
        "outside": ["the regexp matcher executing its compiled program faithfully (the program itself is produced by the real regexp/syntax)",
                    "YAML decoding of the rule list", "non-ASCII names (multi-byte runes)", "subjects longer than the bound"],
        "level_text": "Bounded symbolic execution of ParseFirewallRules/buildComps/regexCompare/firewallRule and the rule loop of handleMessageData: "
                      "a /regex/ rule matches exactly the strings wholly in the pattern's language (the pattern string the code builds is compiled by "
                      "the real regexp/syntax and simulated symbolically); the node acts on every packet, including notices it originates, as the "
                      "first matching rule dictates; uninterpretable rule data is refused.",
        "level_note": _TRUST,
    },
    "C01": {
        "pkgs": ["./pkg/netceptor", "./pkg/tickrunner"],
        "bounds": {
            "quick": "every directed graph over 3 nodes (6 edges present/absent, arbitrary real costs in (0,1000]), unwind 40; every UNDIRECTED graph "
                     "over 4 nodes (6 links, arbitrary costs); update->knowledge->table "
                     "pipeline over {A,B,C} with arbitrary costs; removal of one of two connections over every 3-node graph; one idle-monitor pass "
                     "with arbitrary reception times; tick runner with 1-2 requests of arbitrary delay 0..1h; MESH: 3 real nodes running the real "
                     "runProtocol over in-order in-memory sessions, every initial topology (8) with arbitrary positive link costs, brought up link by link, "
                     "then 1 event of {none, link lost, link added, node stopped, node restarted under its name and re-attached link by link}, then the "
                     "pending requests and 2 route-update periods; one (run-to-block) interleaving; a direct link (arbitrary cost < 2) lost right after "
                     "acceptance, after the peer's confirmation, or after a further update",
            "thorough": "as quick with every directed graph over 4 nodes (12 edges), 1-3 tick requests, and 2 consecutive mesh events",
        },
        "no_native": ["Verif_C01_tick_coalesce"],
        "assumptions": ["link costs are positive reals <= 1000 (float rounding not modelled: costs encoded as reals)",
                        "every node that appears as a neighbour has its own entry in the knowledge (its own update has arrived) - single-node harnesses only",
                        "mesh harness: the two tick runners of each node are replaced by a pump that serves a request at the next round (tickrunner.Run is "
                        "decided separately); update IDs are fixed distinct strings"],
        "outside": ["convergence of the distributed protocol beyond the mesh bound: more than 3 live nodes, more than 2 events, delivery interleavings "
                    "other than run-to-block (each link in order, nodes served round-robin), message delay across a period boundary",
                    "graphs over more than 4 nodes", "timing constants",
                    "tick runner timing is checked on the durations the code passes to time.After, not on a real clock"],
        "level_text": "Bounded symbolic execution of the real updateRoutingTable (with the real go-priority-queue and container/heap) against an "
                      "independent Bellman-Ford reference for every graph within the bound: table = exactly the reachable nodes, reported cost = "
                      "least cost, next hop = direct neighbour on a least-cost path (hence loop-free), termination; plus the bookkeeping steps "
                      "(update handling, connection removal, idle monitor, tick runner) that keep knowledge and table current; and a 3-node mesh of "
                      "real nodes (real runProtocol, flooding, handlers) whose tables are compared with the reference after every bounded event history, "
                      "for every assignment of link costs.",
        "level_note": _TRUST,
    },
    "C20": {
        "pkgs": ["./pkg/utils", "./pkg/netceptor", "./pkg/certificates"],
        "no_native": ["Verif_C20_only_the_leaf_names_the_peer", "Verif_C20_request_names_exactly_what_was_asked", "Verif_C20_tooling_passes_node_ids_through"],
        "bounds": {
            "quick": "0..2 node IDs; one ID: lengths {0,1,2,50,110..116,127,128,129,200,240..244,255,256,300}, two IDs: lengths from {1,112,113,128,256}; "
                     "first/last content byte arbitrary ASCII; 0..1 DNS name (2 bytes), 0..1 IPv4/IPv6 address (arbitrary bytes)",
            "thorough": "as quick, with one ID of every length 0..300",
        },
        "assumptions": ["encoding/asn1 replaced (engine only) by X.690 DER models of the shapes used; native replays run the real encoding/asn1 "
                        "(differential test of the models)", "node IDs are ASCII"],
        "outside": ["crypto/x509 certificate creation, parsing and chain building (SignCertReq copies the request's SAN extension verbatim)",
                    "non-ASCII node IDs", "node IDs longer than 300 bytes"],
        "level_text": "Bounded symbolic execution of the hand-rolled subjectAltName encoder MakeReceptorSAN, the reader ReceptorNames and "
                      "ParseReceptorNamesFromCert over DER models of encoding/asn1: exactly one value per requested name in order with the right tag, "
                      "node IDs read back exactly (across every DER length-form boundary), verification accepts exactly the encoded IDs.",
        "level_note": _TRUST,
    },
    "C04": {
        "pkgs": ["./pkg/workceptor"],
        "bounds": "one status rewrite (UpdateBasicStatus / UpdateFullStatus) of an arbitrary old record with a crash before each of its file-system "
                  "operations (crash index 1..8); one acknowledged command unit and one acknowledged remote unit followed by 1-2 updates with a crash "
                  "at any operation, then the real restart scan; restart on a record in each of the 5 states; status query for a unit only on disk; "
                  "restart scan of a Pending/Running unit while its live runner rewrites the record (2 pre-emptions, every file-system operation a "
                  "scheduling point); the real startRemoteUnit against a model of the remote node with 0..2 input bytes",
        "no_native": ["Verif_C04_rewrite_crash_index", "Verif_C04_acked_unit_survives", "Verif_C04_remote_binding_survives",
                      "Verif_C04_remote_binding_recorded_before_input_is_sent"],
        "crash_native": {"Verif_C04_rewrite_crash_index": "native/c04_crash.py"},
        "schedule_harnesses": ["Verif_C04_rescan_while_runner_writes"],
        "assumptions": ["file-system model: every state-changing operation (create, truncate, write, mkdir, remove) is atomic (process kill, not power loss)",
                        "unit IDs fixed by the harness (randomness stubbed)"],
        "outside": ["file-change events (fsnotify is a stub) and timestamp granularity of the file system (seeded change C04g is NOT detected)",
                    "the detached runner process and real process signalling", "file descriptors inherited by child processes (the control-socket lock "
                    "held by a surviving runner - seeded change C04e is NOT detected)", "fsync / power loss", "kernel-level atomicity of a single write",
                    "kubernetes and python units", "repeated crash/restart cycles beyond one"],
        "level_text": "Bounded symbolic execution of the real status-file code (Save/Load/UpdateFullStatus/lockStatusFile), AllocateUnit / "
                      "AllocateRemoteUnit, scanForUnit/findUnit and the Restart methods over a file-system model with a crash injected before "
                      "every state-changing operation: after restart an acknowledged unit is listed with its type and remote binding, finished "
                      "units keep state and size, never-started units are failed, and status queries never block.",
        "level_note": _TRUST,
    },
    "C14": {
        "pkgs": ["./pkg/workceptor"],
        "bounds": "2 independent writers + 1 reader on one status file, and 2 daemon goroutines sharing one unit + the runner process, every "
                  "file-system operation a scheduling point, 2 pre-emptions; arbitrary numeric increments",
        "schedule_harnesses": ["Verif_C14_rmw_serialisable", "Verif_C14_shared_unit", "Verif_C14_rescan_while_runner_writes", "Verif_C14_stdout_size_vs_state_writer", "Verif_C14_state_update_leaves_the_size_alone"],
        "assumptions": ["lockedfile model: exclusive advisory lock per open file description, blocking, released on close"],
        "outside": ["data races inside one critical section (e.g. writes under a shared lock): the engine interleaves only at synchronisation points "
                    "(seeded change C14g is NOT detected)", "real flock semantics on network file systems", "more than 3 concurrent actors", "schedules needing more than 2 pre-emptions"],
        "level_text": "Bounded symbolic execution with schedule exploration of the real UpdateFullStatus/UpdateBasicStatus/Load/Save on the "
                      "file-system model: the final record is that of some serial order (no lost update, no wiped field) and a reader sees a whole record.",
        "level_note": _TRUST,
    },
    "C13": {
        "pkgs": ["./pkg/workceptor"],
        "bounds": "two allocations with an ARBITRARY 8-character identifier stream against an index and a data directory holding other units (at most 3 "
                  "collisions in a row); two concurrent allocations drawing the same identifier, 2 pre-emptions; release (forced or not, removal "
                  "failing or not); restart on a command-unit record in each of the 5 states with arbitrary output size, then release",
        "no_native": ["Verif_C13_unique_id", "Verif_C13_cancel_stops_the_process", "Verif_C13_cancel_after_an_early_cancel", "Verif_C13_finished_remote_unit_survives_its_ttl"],
        "schedule_harnesses": ["Verif_C13_concurrent_allocation"],
        "assumptions": ["processes are not modelled: exec.Cmd.Start fails, no runner process writes concurrently"],
        "outside": ["status regressions caused by the detached runner process racing with the daemon", "kubernetes / python units",
                    "real process signalling on cancel (the cancel handler is run against a recording model of os.Process)", "more than two concurrent submitters"],
        "level_text": "Bounded symbolic execution of generateUnitID/AllocateUnit (arbitrary random stream, index and directory pre-state, and two "
                      "concurrent callers under every schedule in the bound), BaseWorkUnit.Release and the restart path over the file-system model: "
                      "IDs and directories are never shared, a successful release removes files and index entry, a restart never moves a unit to an "
                      "earlier stage or changes a finished unit.",
        "level_note": _TRUST,
    },
    "C15": {
        "pkgs": ["./pkg/workceptor"],
        "bounds": "one command of each kind (submit, cancel, release, force-release, results) x connection kind {unix, tcp, \"\", unixgram, mesh} x "
                  "verifying / non-verifying type x signature {absent, empty, token} x key {unset, set, unloadable} x token verdict {error, "
                  "not valid, valid} x audience {none, [A], [B], [B,A], [\"\"], [a]} - exhaustive over this finite shape (6300 paths)",
        "no_native": ["Verif_C15_gate", "Verif_C15_gate_sequence", "Verif_C15_remote_signed_unit"],
        "assumptions": ["golang-jwt ParseWithClaims and certificates.LoadPublicKey replaced by verdict models (the JWT library's signature, expiry and "
                        "algorithm checks are trusted)"],
        "outside": ["the JWT library itself (signature verification, expiry evaluation, algorithm confusion) and the CLASS of error it reports (seeded change "
                    "C15f, which waves through tokens whose parse error 'is' an expiry error, is NOT detected: the verdict model returns plain errors)", "key file parsing",
                    "the claims minted by createSignature (RS512, audience, expiry)"],
        "level_text": "Bounded symbolic execution of the real InitFromJSON/ControlFunc/processSignature/ShouldVerifySignature/VerifySignature: a "
                      "command for a verifying type that arrives over anything but the Unix socket takes effect only if the token parses, is valid "
                      "and names this node; a token for a non-verifying type is refused; every refusal happens before any effect or disk access.",
        "level_note": _TRUST,
    },
    "C19": {
        "pkgs": ["./pkg/workceptor"],
        "no_native": ["Verif_C19_remote_refusal_discloses_nothing", "Verif_C19_only_a_real_profile_counts_as_tls"],
        "bounds": "remote submission with 1-3 parameters whose names are arbitrary printable-ASCII strings of 8, 7 and 3 bytes (every letter case "
                  "of secret_x and secret_), arbitrary 1-byte values, with / without a TLS client profile; status, list and status-after-restart",
        "assumptions": ["parameter names are ASCII (Unicode case folding outside the claim)"],
        "outside": ["non-ASCII parameter names", "the JSON text of the response (the response value is inspected)",
                    "confidentiality of the on-disk record (stored unredacted by design)", "what the remote node does with the parameters"],
        "level_text": "Bounded symbolic execution of the real submit path (InitFromJSON, ControlFunc, AllocateRemoteUnit), remoteUnit.Status / "
                      "UnredactedStatus, unitStatusForCFR and the restart scan: no response ever contains a parameter whose name starts with "
                      "secret_ in any letter case, every other parameter is reported unchanged, and a secret without TLS is refused before "
                      "anything is stored or sent.",
        "level_note": _TRUST,
    },
    "C05": {
        "pkgs": ["./pkg/workceptor", "./pkg/controlsvc"],
        "bounds": "output written in up to 3 chunks of 0..2, 0..2 and 0..1 arbitrary bytes, the file present or not when streaming starts, every start "
                  "offset 0..size+1, the unit recorded finished (succeeded or failed) with a size equal to or larger than what is stored; reader "
                  "polls interleaved with the producer at 5 points; REMOTE MIRROR: finished remote unit with 0..3 arbitrary output bytes, 0..len already "
                  "stored locally; results COMMAND for a running unit with 3 stored bytes, recorded size 0..3, start offset 0..3; every chunking of header line and data (header alone or with the first k bytes, then byte by byte), up to 2 link "
                  "failures (error or clean end of stream) at any chunk boundary, 0..1 refused connection attempts, 12 one-second timer steps",
        "common": {"native_timeout": 300, "witnesses": 1},
        "no_native": ["Verif_C05_remote_mirror"],
        "assumptions": ["timers fire only when every goroutine is blocked (poll intervals are not measured)",
                        "the runner records the final StdoutSize correctly (C13/C04)"],
        "outside": ["the TEXT of status replies (the JSON model keeps values, not text: seeded change C05e, a substring test on the reply, is NOT detected)",
                    "the status half of the remote mirror (monitorRemoteStatus) and the transport below connectToRemote (a model of the remote control "
                    "service stands in for netceptor.Conn)", "remote units still running while mirrored", "negative start offsets", "outputs longer than 5 bytes and reads shorter than the data available"],
        "level_text": "Bounded symbolic execution of the real GetResults reader goroutine (with its stat-watcher) over the file-system model with a "
                      "growing output file: the bytes delivered are exactly file[offset:], the stream stays open while the unit runs or while "
                      "recorded output is still missing, and ends once the unit is finished and everything recorded was sent; and of the real "
                      "monitorRemoteStdout against a model of the remote control service: at every (re)connection the local copy is a prefix of the "
                      "remote output and the transfer resumes at its end, and it ends equal to the remote output.",
        "level_note": _TRUST,
    },
    "C08": {
        "pkgs": ["./pkg/controlsvc", "./pkg/workceptor"],
        "bounds": {
            "quick": "session: ANY request line of 0..4 bytes (newline-terminated or cut by a disconnect, with or without empty reads) followed by a "
                     "valid command; built-in commands status/ping/traceroute/connect/reload/unknown as JSON lines through the real session "
                     "loop with every looked-up field absent or of each JSON type, and the command field missing or of a wrong type; work "
                     "subcommands (9 spellings) as JSON with unit IDs {known, disk-only, unknown, .., ., empty, ../x, id/status, a/b} or of any JSON "
                     "type, startpos/signature/node/worktype of any JSON type; plain-text work commands of up to 3 tokens from a 15-word vocabulary; "
                     "two requests on one session (first: any JSON shape of status/ping/connect/unknown or a plain line; second: a well-formed built-in "
                     "request) with the second answer compared to a fresh session's",
            "thorough": "as quick with request lines of 0..5 bytes and plain-text work commands of up to 4 tokens",
        },
        "common": {"maxpaths": 400000, "witnesses": 1},
        "schedule_harnesses": ["Verif_C08_two_sessions"],
        "no_native": ["Verif_C08_silent_client_does_not_block_others"],
        "assumptions": ["encoding/json replaced by the value-preserving blob model (a JSON line is one opaque object whose first byte is '{')",
                        "processes are not modelled (exec fails)"],
        "outside": ["unbounded line growth (memory)", "latency", "more than two concurrent sessions or more than 2 pre-emptions (two concurrent work "
                    "commands list/status vs release/submit/status are explored under every schedule in that bound)", "request lines longer than the bound"],
        "level_text": "Bounded symbolic execution of the real RunControlSession loop over a scripted connection, of InitFromString/InitFromJSON/"
                      "ControlFunc of every built-in command and of the work command with findUnit/scanForUnit on the file-system model: no "
                      "panic, every non-empty invalid request line is answered with ERROR, the session survives to answer the next command, no "
                      "lock stays held, nothing outside the unit directories is touched.",
        "level_note": _TRUST,
    },
    "C03": {
        "pkgs": ["./pkg/netceptor", "./pkg/utils"],
        "bounds": "one relay direction with any script of <= 3 reads of 0..2 arbitrary bytes each (data together with EOF/error allowed) into a "
                  "destination whose 1st or 2nd write may come up short or fail; both directions through BridgeConns with 0..2 bytes each; Conn "
                  "read/write/close delegation with <= 3 bytes; acceptor first-byte check for every first byte value",
        "no_native": ["Verif_C03_accept_first_byte", "Verif_C03_dialled_conn_peer_finishes_first"],
        "assumptions": ["quic-go provides a reliable ordered stream (its behaviour under loss, duplication, reordering and re-routing is TRUSTED, not decided)"],
        "outside": ["QUIC reliability, congestion control and path changes (quic-go)", "multi-hop loss schedules", "streams longer than the bound",
                    "controlsvc connect / tcp_proxy end-to-end runs (they use BridgeConns, which is decided)"],
        "level_text": "Bounded symbolic execution of the glue receptor adds around QUIC streams: utils.bridgeHalf / BridgeConns relay exactly the bytes "
                      "read, in order, and propagate end-of-stream only after the last byte; Conn hands reads/writes through and half-closes; the "
                      "acceptor admits exactly the streams that start with the marker byte the dialler writes. The stream's own reliability is quic-go's.",
        "level_note": _TRUST + " For this property the claim is deliberately narrow: the reliable-pipe behaviour itself rests on quic-go.",
    },
    "C09": {
        "pkgs": ["./pkg/netceptor"],
        "bounds": "0..2 presented certificates (each parsing or not) x 0..2 pins of length {28,32,48,64,5,0,33} with arbitrary bytes x chain verdict x "
                  "receptor names {decode error, none, [ex], [ot], [ot,ex,e]} x DNS/receptor mode x server/client/invalid role x expected name "
                  "{ex, empty}; client profile {insecure or not, pin or not} x mode; mutual-TLS listener with claimed node in {N, NN, N:x, C:N, :, N:} "
                  "x certificate name in 8 values x pin or not; tls-server profile (client certificates required, CA bundle, pin none/matching/other, "
                  "TLS 1.2/1.3) through the real PrepareTLSServerConfig and listen() x claimed node in 3 values x certificate name in 5 values",
        "no_native": ["Verif_C09_verify_decision", "Verif_C09_client_config", "Verif_C09_listener_peer_identity", "Verif_C09_verifier_reuse",
                      "Verif_C09_profile_to_listener"],
        "assumptions": ["crypto/x509 (ParseCertificate, Certificate.Verify, CertPool), crypto/tls (Config.Clone), sha256/sha512 and utils.ReceptorNames are "
                        "verdict models: their answers are free variables, the arguments receptor passes to them are captured and checked",
                        "QUIC transport stubbed for the listener harness (only the TLS configuration it receives is used)"],
        "outside": ["correctness of x509 path building, expiry and key-usage evaluation", "the TLS handshake itself", "hash collision resistance",
                    "decoding of the receptor name extension (C20)"],
        "level_text": "Bounded symbolic execution of ReceptorVerifyFunc, GetClientTLSConfig and the per-client configuration of the mutual-TLS stream "
                      "listener: the verifier accepts iff every condition holds (certificates present and parsing, pins legal and one matching, chain "
                      "verdict, expected node ID among the receptor names), asks the chain verifier the right question for the role, built-in "
                      "verification is only replaced together with it, and a listener checks the certificate against the node the packets claim.",
        "level_note": _TRUST,
    },
    "C17": {
        "pkgs": ["./pkg/netceptor"],
        "bounds": "a datagram socket (advertising or not) closed 1-3 times, then a late packet, then re-binding the name, then node shutdown; two "
                  "deliveries + close (+ optional reader) on one socket under every schedule with 2 pre-emptions; one stream dial over a stubbed QUIC "
                  "transport failing at the handshake / at stream opening / succeeding and then closed in 4 different orders",
        "no_native": ["Verif_C17_dial_releases_socket", "Verif_C17_failed_dial_leaves_nothing_behind", "Verif_C17_listener_closed_with_unaccepted_connections"],
        "schedule_harnesses": ["Verif_C17_close_vs_deliveries"],
        "assumptions": ["quic-go replaced by stubs in the dial harness (connection context ends when CloseWithError is called or the harness ends it)"],
        "outside": ["goroutines inside quic-go", "growth over long histories (per-operation release is decided)", "shutdown of backends",
                    "more than two concurrent deliverers or more than 2 pre-emptions"],
        "level_text": "Bounded symbolic execution of PacketConn.Close / ListenPacket(AndAdvertise) / StartUnreachable / the delivery select of "
                      "handleMessageData / RemoveLocalServiceAdvertisement / DialContext with schedule exploration: repeated close and close racing "
                      "with deliveries never panic, every deliverer returns, the service name is released and can be bound again, helper goroutines "
                      "stop at shutdown, and a dial releases its ephemeral socket on every failure path and after the connection is closed.",
        "level_note": _TRUST,
    },
    "C10": {
        "pkgs": ["./pkg/netceptor"],
        "bounds": "step lemma for all 256 budgets, arbitrary routing table (no route / via B / via C / via unconnected X) for source and "
                  "destination, payload <= 1 byte (quick) / 2 bytes and all service-name lengths (thorough); 2-node routing loop with budget <= 3; "
                  "traceroute script of 4 probes",
        "assumptions": [],
        "outside": ["the induction over hops is by the step lemma (composition checked concretely only for the 2-node loop)"],
        "level_text": "Bounded symbolic execution of forwardMessage/handleMessageData/sendUnreachable and CreateTraceroute: relay only with "
                      "budget>0, budget decremented by exactly one, nothing else changes, expiry notice names the original addresses.",
        "level_note": _TRUST,
    },
    "C02": {
        "pkgs": ["./pkg/framer", "./pkg/netceptor", "./pkg/backends"],
        "bounds": {
            "quick": "payload 0..3 bytes (framing: 2 frames, every chunking of the stream); service names of 0,1,2,8 bytes; node names 1 byte; 3-node chain",
            "thorough": "payload 0..6 bytes; otherwise as quick",
        },
        "assumptions": ["name hash (highwayhash) replaced by an injective function of names <= 7 bytes",
                        "service/node names contain no NUL byte (documented precondition)"],
        "outside": ["concurrent senders", "websocket/UDP kernel paths", "hash collisions", "payloads longer than the bound"],
        "level_text": "Bounded symbolic execution of the real codec, dispatch, PacketConn and framer code: for every payload/header "
                      "within the bound and every chunking of a two-frame stream the assertions hold (z3 unsat), else a concrete "
                      "counterexample is replayed natively.",
        "level_note": "Trusted: go/ssa lowering, the gosym interpreter, z3; stubs: logger (no effect), highwayhash (injective), "
                      "context (model). Bounds as stated in the evidence; behaviour beyond them is not claimed.",
    },
}
