#!/usr/bin/env python3
"""baseline_check.py: runs the repository's test suite (guard off) and compares with BASELINE.json's stable_pass list."""
import json, subprocess, os, sys
env = dict(os.environ, GOFLAGS="-mod=mod", GOPROXY="off", GOSUMDB="off")
p = subprocess.run(["go", "test", "-json", "-vet=off", "-count=1", "-timeout", "25m", "./..."], cwd="/repo", env=env,
                   stdout=subprocess.PIPE, stderr=subprocess.DEVNULL, text=True, errors="replace")
res = {}
for line in p.stdout.splitlines():
    try:
        e = json.loads(line)
    except Exception:
        continue
    if e.get("Test") and e.get("Action") in ("pass", "fail", "skip"):
        res[e["Package"] + "::" + e["Test"]] = e["Action"]
base = json.load(open("/root/.vp/BASELINE.json"))
bad = [t for t in base["stable_pass"] if res.get(t) != "pass"]
print("stable_pass:", len(base["stable_pass"]), "not passing now:", len(bad))
for t in bad:
    print("  ", t, res.get(t))
sys.exit(1 if bad else 0)
