#!/usr/bin/env python3
"""Native crash replay for C04: the REAL Save + UpdateBasicStatus run in a child process that is killed
(SIGKILL injected by strace on entering the n-th write / ftruncate system call that touches the status
file), then the REAL loader is run on what is left. Prints one line per kill point and a final
RESULT line: reproduced=<true|false> points=<n> bad=<list>. Exit 0 always (the caller interprets)."""
import json, os, shutil, subprocess, sys, tempfile

REPO = os.environ.get("VERIF_REPO", "/repo")
HERE = os.path.dirname(os.path.abspath(__file__))
ENV = dict(os.environ, GOFLAGS="-mod=mod", GOPROXY="off", GOSUMDB="off", GOTOOLCHAIN="local")


def main():
    probe = subprocess.run(["strace", "-f", "-qq", "-o", os.devnull, "true"], stdout=subprocess.DEVNULL, stderr=subprocess.DEVNULL)
    if probe.returncode != 0:
        print("RESULT reproduced=unavailable points=0 bad=[] (strace/ptrace not usable here)")
        return
    tmp = tempfile.mkdtemp(prefix="verif.c04crash.")
    try:
        ov = os.path.join(tmp, "ov.json")
        json.dump({"Replace": {os.path.join(REPO, "pkg/workceptor/zz_crash_demo_test.go"): os.path.join(HERE, "c04_crash_child_test.go.txt")}}, open(ov, "w"))
        binp = os.path.join(tmp, "wc.test")
        p = subprocess.run(["go", "test", "-c", "-vet=off", "-overlay", ov, "-o", binp, "./pkg/workceptor"], cwd=REPO, env=ENV,
                           stdout=subprocess.PIPE, stderr=subprocess.STDOUT, text=True)
        if p.returncode != 0:
            print("BUILD-FAILED", p.stdout[-1500:])
            print("RESULT reproduced=false points=0 bad=[] build=failed")
            return
        st = os.path.join(tmp, "status")
        bad, points = [], 0
        for sysc in ("write", "ftruncate"):
            for n in range(1, 5):
                for f in (st, st + ".lock"):
                    if os.path.exists(f):
                        os.remove(f)
                child = subprocess.run(["strace", "-f", "-qq", "-o", os.devnull, "-P", st, "-e", "trace=" + sysc,
                                        "-e", "inject=%s:signal=SIGKILL:when=%d" % (sysc, n), binp, "-test.run", "^TestVerifCrashChild$"],
                                       env=dict(ENV, VERIF_CRASH_CHILD=st), stdout=subprocess.DEVNULL, stderr=subprocess.DEVNULL)
                killed = child.returncode != 0
                if not killed:
                    break  # fewer than n such calls: every crash point of this kind has been tried
                points += 1
                chk = subprocess.run([binp, "-test.run", "^TestVerifCrashCheck$", "-test.v"], env=dict(ENV, VERIF_CRASH_CHECK=st),
                                     stdout=subprocess.PIPE, stderr=subprocess.STDOUT, text=True)
                left = [l.strip() for l in chk.stdout.splitlines() if "LEFT" in l]
                ok = chk.returncode == 0
                print("kill before %s #%d: %s :: %s" % (sysc, n, "record intact" if ok else "RECORD LOST", left[0] if left else ""))
                if not ok:
                    bad.append("%s#%d" % (sysc, n))
        # write#1 is the initial Save that builds the pre-state (nothing had been promised yet): not counted
        bad = [b for b in bad if b != "write#1"]
        print("RESULT reproduced=%s points=%d bad=%s" % ("true" if bad else "false", points, json.dumps(bad)))
    finally:
        shutil.rmtree(tmp, ignore_errors=True)


if __name__ == "__main__":
    main()
