package verifapi

import (
	"context"
	"hash"
	"time"
)

// Models of library objects. The engine redirects the real constructors to these (they are
// ordinary Go and are executed symbolically like the code under test); natively they are unused.

// ---- context ----

type mctx struct {
	parent   context.Context
	done     chan struct{}
	err      error
	children []*mctx
	key, val interface{}
	shared   bool // value context: shares the parent's done channel
}

func (c *mctx) Deadline() (time.Time, bool) { return time.Time{}, false }
func (c *mctx) Done() <-chan struct{}       { return c.done }
func (c *mctx) Err() error                  { return c.err }
func (c *mctx) Value(key interface{}) interface{} {
	if c.key != nil && c.key == key {
		return c.val
	}
	if c.parent != nil {
		return c.parent.Value(key)
	}
	return nil
}

func (c *mctx) cancel(err error) {
	if c.err != nil {
		return
	}
	c.err = err
	if !c.shared {
		close(c.done)
	}
	for _, ch := range c.children {
		ch.cancel(err)
	}
}

var background = &mctx{}

// ModelBackground replaces context.Background / context.TODO (Done() is a nil channel: never ready).
func ModelBackground() context.Context { return background }

func newChild(parent context.Context) *mctx {
	c := &mctx{parent: parent, done: make(chan struct{})}
	if p, ok := parent.(*mctx); ok {
		if p.err != nil {
			c.cancel(p.err)
		} else if p.done != nil {
			p.children = append(p.children, c)
		}
	}
	return c
}

// ModelWithCancel replaces context.WithCancel.
func ModelWithCancel(parent context.Context) (context.Context, context.CancelFunc) {
	c := newChild(parent)
	return c, func() { c.cancel(context.Canceled) }
}

// ModelWithTimeout replaces context.WithTimeout / WithDeadline: the deadline is a timer that the
// engine fires only when nothing else can run.
func ModelWithTimeout(parent context.Context, d time.Duration) (context.Context, context.CancelFunc) {
	c := newChild(parent)
	go func() {
		select {
		case <-time.After(d):
			c.cancel(context.DeadlineExceeded)
		case <-c.done:
		}
	}()
	return c, func() { c.cancel(context.Canceled) }
}

// ModelWithDeadline replaces context.WithDeadline.
func ModelWithDeadline(parent context.Context, t time.Time) (context.Context, context.CancelFunc) {
	return ModelWithTimeout(parent, time.Until(t))
}

// ModelWithValue replaces context.WithValue.
func ModelWithValue(parent context.Context, key, val interface{}) context.Context {
	c := &mctx{parent: parent, key: key, val: val, shared: true}
	if p, ok := parent.(*mctx); ok {
		c.done = p.done
		c.err = p.err
		if p.done != nil && p.err == nil {
			// share cancellation with the parent: register so Err() becomes visible
			p.children = append(p.children, c)
		}
	}
	return c
}

// ---- highwayhash ----

// ModelNewHash64 replaces highwayhash.New64(key): an injective function of names up to 7 bytes.
func ModelNewHash64(key []byte) (hash.Hash64, error) { return &ModelHash64{}, nil }
