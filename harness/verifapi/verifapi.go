// Package verifapi is the harness API shared by the symbolic engine (gosym) and native replay.
//
// Under gosym every function here is intercepted: nondeterministic inputs become SMT variables,
// Assume extends the path condition, Assert becomes the query "path-condition AND NOT cond".
// Compiled natively (go test -overlay) the same functions replay a counterexample: inputs are read,
// in call order, from the JSON file named by VERIF_CEX; Assert failure exits with status 3.
package verifapi

import (
	"encoding/json"
	"fmt"
	"math/big"
	"os"
	"regexp"
	"strconv"
	"sync"
	"time"
)

type input struct {
	Kind string          `json:"kind"`
	V    json.RawMessage `json:"v"`
	Rat  string          `json:"rat"`
}

type cexFile struct {
	Harness string  `json:"harness"`
	Name    string  `json:"assertion"`
	Inputs  []input `json:"inputs"`
}

var (
	mu     sync.Mutex
	loaded bool
	cex    cexFile
	pos    int
	// Failed is set natively when an Assert failed.
	Failed []string
)

func load() {
	if loaded {
		return
	}
	loaded = true
	p := os.Getenv("VERIF_CEX")
	if p == "" {
		return
	}
	b, err := os.ReadFile(p)
	if err != nil {
		fmt.Fprintf(os.Stderr, "VERIF-REPLAY-ERROR cannot read %s: %v\n", p, err)
		os.Exit(4)
	}
	if err := json.Unmarshal(b, &cex); err != nil {
		fmt.Fprintf(os.Stderr, "VERIF-REPLAY-ERROR bad cex: %v\n", err)
		os.Exit(4)
	}
}

func next(kind string) *input {
	mu.Lock()
	defer mu.Unlock()
	load()
	if pos >= len(cex.Inputs) {
		// inputs beyond the counterexample are unconstrained: use zero values
		return nil
	}
	in := &cex.Inputs[pos]
	pos++
	if in.Kind != kind {
		fmt.Fprintf(os.Stderr, "VERIF-REPLAY-ERROR input %d: harness asks %s, counterexample has %s\n", pos-1, kind, in.Kind)
		os.Exit(4)
	}
	return in
}

func numStr(in *input) string {
	if in == nil {
		return "0"
	}
	var s string
	if json.Unmarshal(in.V, &s) == nil {
		return s
	}
	return string(in.V)
}

// Engine reports whether the harness runs under the symbolic engine.
func Engine() bool { return false }

// Byte returns an arbitrary byte.
func Byte() byte { v, _ := strconv.ParseUint(numStr(next("byte")), 10, 8); return byte(v) }

// Bool returns an arbitrary boolean.
func Bool() bool {
	in := next("bool")
	if in == nil {
		return false
	}
	var b bool
	_ = json.Unmarshal(in.V, &b)
	return b
}

// Uint64 returns an arbitrary uint64.
func Uint64() uint64 { v, _ := strconv.ParseUint(numStr(next("u64")), 10, 64); return v }

// Int64 returns an arbitrary int64.
func Int64() int64 { v, _ := strconv.ParseInt(numStr(next("i64")), 10, 64); return v }

// Int returns an arbitrary int.
func Int() int { v, _ := strconv.ParseInt(numStr(next("int")), 10, 64); return int(v) }

// Float returns an arbitrary finite float64 (encoded as a real number).
func Float() float64 {
	in := next("float")
	if in == nil {
		return 0
	}
	if in.Rat != "" {
		if r, ok := new(big.Rat).SetString(in.Rat); ok {
			f, _ := r.Float64()
			return f
		}
	}
	var f float64
	_ = json.Unmarshal(in.V, &f)
	return f
}

// Choose returns an arbitrary integer in [0,n); the engine explores every alternative.
func Choose(n int) int {
	in := next("choose")
	if in == nil {
		return 0
	}
	var v int
	_ = json.Unmarshal(in.V, &v)
	return v
}

func byteList(in *input) []byte {
	if in == nil {
		return nil
	}
	var l []int
	_ = json.Unmarshal(in.V, &l)
	b := make([]byte, len(l))
	for i, x := range l {
		b[i] = byte(x)
	}
	return b
}

// Bytes returns exactly n arbitrary bytes.
func Bytes(n int) []byte {
	b := byteList(next("bytes"))
	for len(b) < n {
		b = append(b, 0)
	}
	return b[:n]
}

// BytesUpTo returns 0..n arbitrary bytes (every length is explored).
func BytesUpTo(n int) []byte { return Bytes(Choose(n + 1)) }

// String returns a string of exactly n arbitrary bytes.
func String(n int) string {
	b := byteList(next("string"))
	for len(b) < n {
		b = append(b, 0)
	}
	return string(b[:n])
}

// StringUpTo returns a string of 0..n arbitrary bytes.
func StringUpTo(n int) string { return String(Choose(n + 1)) }

// Assume restricts the inputs considered.
func Assume(c bool) {
	if !c {
		fmt.Fprintln(os.Stderr, "VERIF-ASSUME-FALSE (counterexample does not satisfy an assumption natively)")
		os.Exit(5)
	}
}

// Assert states the property; name identifies the obligation.
func Assert(name string, c bool) {
	if !c {
		mu.Lock()
		Failed = append(Failed, name)
		mu.Unlock()
		fmt.Fprintf(os.Stderr, "VERIF-ASSERT-FAILED %s\n", name)
		if os.Getenv("VERIF_CEX") != "" {
			os.Exit(3)
		}
	}
}

// Cover marks a point that must be reachable (vacuity guard).
func Cover(name string) {}

// Known names a class of inputs (used to match entries of known_findings.json).
func Known(tag string, c bool) {}

// Note records a free-form note in the evidence.
func Note(key string, v int) {}

// SetUnwind bounds every loop executed from now on to n iterations; if failName is non-empty an
// overrun is a violation of that name (loop termination is the property), otherwise it makes the run inconclusive;
// the special name "#cut" ends such paths silently and records them as outside the claim.
func SetUnwind(n int, failName string) {}

// ExploreSchedules switches on schedule exploration with at most p pre-emptions.
func ExploreSchedules(p int) {}

// SelectFork controls whether a select with several ready cases forks (default true).
func SelectFork(on bool) {}

// Quiesce lets every other goroutine run until it blocks or ends.
func Quiesce() { time.Sleep(60 * time.Millisecond) }

// AdvanceTime fires the oldest pending timer (engine); natively it sleeps d.
func AdvanceTime(d time.Duration) { time.Sleep(d) }

// GoLow starts f as a goroutine that the engine runs only at an explored pre-emption point or when
// nothing else can run (natively: an ordinary goroutine).
func GoLow(f func()) { go f() }

// Yield is a scheduling point.
func Yield() {}

// Blocked reports (engine only) whether every other goroutine is blocked or finished.
func Blocked() bool { return true }

// JSON marshals v. Under the engine the result is an opaque blob that json.Unmarshal of the code
// under test decodes back to a copy of v.
func JSON(v interface{}) []byte {
	b, err := json.Marshal(v)
	if err != nil {
		panic(err)
	}
	return b
}

// FromJSON decodes bytes produced by the code under test (json.Marshal) into v.
func FromJSON(data []byte, v interface{}) bool { return json.Unmarshal(data, v) == nil }

// ---- models that the engine substitutes for library functions (see engine redirect table) ----

// ModelHash64 is the stand-in for highwayhash.New64(key): an injective function of short names.
type ModelHash64 struct{ buf []byte }

func (m *ModelHash64) Write(p []byte) (int, error) {
	m.buf = append(m.buf, p...)
	return len(p), nil
}
func (m *ModelHash64) Sum(b []byte) []byte { return b }
func (m *ModelHash64) Reset()              { m.buf = nil }
func (m *ModelHash64) Size() int           { return 8 }
func (m *ModelHash64) BlockSize() int      { return 32 }
func (m *ModelHash64) Sum64() uint64 {
	if len(m.buf) > 7 {
		return InjectiveHash(m.buf)
	}
	v := uint64(len(m.buf))
	for i, b := range m.buf {
		v |= uint64(b) << (8 * uint(i+1))
	}
	return v
}

// InjectiveHash is an uninterpreted injective function of byte strings longer than 7 bytes (engine:
// a fresh value constrained to be equal to an earlier result iff the inputs are equal; values have the top bit set
// so they never collide with the packed encoding of short names).
func InjectiveHash(b []byte) uint64 {
	h := uint64(14695981039346656037)
	for _, c := range b {
		h = (h ^ uint64(c)) * 1099511628211
	}
	return h | 1<<63
}

// Unsupported aborts the path as outside the encodable fragment.
func Unsupported(why string) { panic("verifapi.Unsupported: " + why) }

// All is a conjunction without short-circuit branches (one SMT term under the engine).
func All(cs ...bool) bool {
	for _, c := range cs {
		if !c {
			return false
		}
	}
	return true
}

// Any is a disjunction without short-circuit branches.
func Any(cs ...bool) bool {
	for _, c := range cs {
		if c {
			return true
		}
	}
	return false
}

// SameBytes compares two byte slices (length and content) as one term.
func SameBytes(a, b []byte) bool {
	if len(a) != len(b) {
		return false
	}
	for i := range a {
		if a[i] != b[i] {
			return false
		}
	}
	return true
}

// Ite selects without branching.
func Ite(c bool, a, b int) int {
	if c {
		return a
	}
	return b
}

// Tier is 0 for the quick tier and 1 for the thorough tier (VERIF_TIER).
func Tier() int {
	if os.Getenv("VERIF_TIER") == "thorough" {
		return 1
	}
	return 0
}

// Reset clears the replay cursor so that several counterexamples can be replayed in one process.
func Reset(path string) {
	mu.Lock()
	defer mu.Unlock()
	loaded = false
	pos = 0
	cex = cexFile{}
	Failed = nil
	os.Setenv("VERIF_CEX", path)
}

// FullMatch reports whether ALL of s is in the language of the regular expression p (reference
// semantics, independent of how the code under test anchors its patterns).
func FullMatch(p, s string) bool { return regexp.MustCompile(`^(?:` + p + `)$`).MatchString(s) }

// Compiles reports whether p is a valid regular expression.
func Compiles(p string) bool { _, err := regexp.Compile(p); return err == nil }

// FIte selects between two floats without branching.
func FIte(c bool, a, b float64) float64 {
	if c {
		return a
	}
	return b
}

// PendingTimer is the duration of the oldest armed timer (time.After/NewTimer/Sleep) some goroutine waits on,
// -1 if there is none. Engine only: natively it returns -1 and harnesses guard its use with Engine().
func PendingTimer() time.Duration { return -1 }

// LiveGoroutines is the number of goroutines (other than the caller) that have not finished - running,
// blocked or parked for ever (engine only; natively 0). Compared before and after an operation it shows
// goroutines the operation left behind.
func LiveGoroutines() int { return 0 }

// StrictClock makes every later reading of the clock strictly greater than the previous one (engine only;
// natively the real clock is used): harnesses whose oracle would be ambiguous for two events bearing the
// same timestamp assume ties away and say so.
func StrictClock() {}

// PendingTimers is the number of armed timers some goroutine is waiting on (engine only; natively 0).
func PendingTimers() int { return 0 }

// Redirect substitutes, under the engine only, the model function fn (same signature) for the library
// function called name (e.g. "encoding/asn1.Marshal"). Natively the real library runs, so every native
// replay of a passing path doubles as a differential test of the model against the real library.
func Redirect(name string, fn interface{}) {}

// FixRandom makes the next randstr.RandomString calls return the given strings (engine only).
func FixRandom(vals ...string) {}
