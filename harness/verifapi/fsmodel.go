package verifapi

import (
	"errors"
	"io"
	"io/fs"
	"os"
	"sort"
	"time"

	"github.com/rogpeppe/go-internal/lockedfile"
)

// File-system model. Under the engine the os / lockedfile entry points used by the repository are
// redirected to the Model* functions below (ordinary Go, executed symbolically like everything else);
// natively the real file system is used, so native replays of passing paths double as a differential
// test of this model. Semantics modelled: a tree of directories and regular files (byte slices),
// open file descriptions with an offset, O_CREATE / O_TRUNC / O_APPEND / O_EXCL, Seek, Truncate,
// Read/Write, Stat, ReadDir (sorted), MkdirAll, RemoveAll, and lockedfile's exclusive advisory lock
// (per open file description, blocking, released on Close or when the process dies).
// Every state-changing operation is one atomic step (process kill, not power loss); a crash can be
// injected before the k-th such step (CrashAt).

type mFile struct {
	data []byte
	dir  bool
	mod  int64
}

type mFD struct {
	file   *mFile
	name   string
	pos    int64
	flag   int
	closed bool
	lock   chan struct{}
}

type mFS struct {
	files   map[string]*mFile
	fds     map[*os.File]*mFD
	lfs     map[*lockedfile.File]*os.File
	locks   map[*mFile]chan struct{}
	held    []chan struct{}
	ops     int
	crashAt int
	crashed bool
	clock   int64
	log     []string
}

var mfs *mFS

// CrashSignal is the panic value with which the model "kills the process".
type CrashSignal struct{}

var (
	errModelNotExist = &fs.PathError{Op: "open", Path: "model", Err: fs.ErrNotExist}
	errModelNotDir      = &fs.PathError{Op: "stat", Path: "model", Err: errors.New("not a directory")}
	errModelNameTooLong = &fs.PathError{Op: "stat", Path: "model", Err: errors.New("file name too long")}
	errModelExist    = &fs.PathError{Op: "open", Path: "model", Err: fs.ErrExist}
	errModelIsDir    = &fs.PathError{Op: "open", Path: "model", Err: errors.New("is a directory")}
	errModelClosed   = &fs.PathError{Op: "file", Path: "model", Err: fs.ErrClosed}
	errModelCrashed  = errors.New("model: process has crashed")
)

func fsys() *mFS {
	if mfs == nil {
		mfs = &mFS{files: map[string]*mFile{}, fds: map[*os.File]*mFD{}, lfs: map[*lockedfile.File]*os.File{}, locks: map[*mFile]chan struct{}{}, crashAt: -1}
		mfs.files["/"] = &mFile{dir: true}
	}
	return mfs
}

// step is called at the start of every state-changing operation.
func (m *mFS) step(what string) bool {
	if m.crashed {
		return false
	}
	m.ops++
	if m.ops == m.crashAt {
		m.crashed = true
		m.log = append(m.log, "CRASH before "+what)
		panic(CrashSignal{})
	}
	m.log = append(m.log, what)
	m.clock++
	Yield() // every state-changing operation is a scheduling point
	return true
}

func mClean(p string) string {
	// paths used by the repository are produced by path.Join and therefore clean; only trailing slashes are removed here
	for len(p) > 1 && p[len(p)-1] == '/' {
		p = p[:len(p)-1]
	}
	return p
}

func mLastSlash(p string) int {
	for i := len(p) - 1; i >= 0; i-- {
		if p[i] == '/' {
			return i
		}
	}
	return -1
}

func mHasSlash(p string) bool { return mLastSlash(p) >= 0 }

func mParent(p string) string {
	i := mLastSlash(p)
	if i <= 0 {
		return "/"
	}
	return p[:i]
}

func mBase(p string) string { return p[mLastSlash(p)+1:] }

// ---- harness-facing API (engine only unless stated) ----

// TempDir returns a fresh directory for the harness: "/d" in the model, a real temporary directory natively.
func TempDir() string {
	d, err := os.MkdirTemp("", "verif-fs-")
	if err != nil {
		panic(err)
	}
	return d
}

// ModelTempDir is TempDir under the engine.
func ModelTempDir() string {
	m := fsys()
	m.files["/d"] = &mFile{dir: true}
	return "/d"
}

// CrashAt arms a crash before the k-th state-changing file-system operation from now (k >= 1); k <= 0 disarms.
// Engine only; natively a no-op.
func CrashAt(k int) {}

// ModelCrashAt is CrashAt under the engine.
func ModelCrashAt(k int) {
	m := fsys()
	if k <= 0 {
		m.crashAt = -1
		return
	}
	m.crashAt = m.ops + k
}

// FSOps is the number of state-changing file-system operations performed so far (engine; natively 0).
func FSOps() int { return 0 }

// ModelFSOps is FSOps under the engine.
func ModelFSOps() int { return fsys().ops }

// RunUntilCrash runs f; it reports true if the model killed the process inside f.
func RunUntilCrash(f func()) (crashed bool) {
	defer func() {
		if r := recover(); r != nil {
			if _, ok := r.(CrashSignal); ok {
				crashed = true
				return
			}
			panic(r)
		}
	}()
	f()
	return false
}

// Reboot models the restart after a crash: open files are gone, advisory locks are released.
// Engine only; natively a no-op.
func Reboot() {}

// ModelReboot is Reboot under the engine.
func ModelReboot() {
	m := fsys()
	m.crashed = false
	m.crashAt = -1
	m.fds = map[*os.File]*mFD{}
	m.lfs = map[*lockedfile.File]*os.File{}
	for _, l := range m.held {
		select {
		case <-l:
		default:
		}
	}
	m.held = nil
}

// ---- os ----

func (m *mFS) open(name string, flag int) (*os.File, error) {
	name = mClean(name)
	if m.crashed {
		return nil, errModelCrashed
	}
	f, ok := m.files[name]
	if !ok {
		if flag&os.O_CREATE == 0 {
			return nil, errModelNotExist
		}
		p, pok := m.files[mParent(name)]
		if !pok || !p.dir {
			return nil, errModelNotExist
		}
		m.step("create " + name)
		f = &mFile{mod: m.clock}
		m.files[name] = f
	} else {
		if flag&os.O_CREATE != 0 && flag&os.O_EXCL != 0 {
			return nil, errModelExist
		}
		if f.dir && flag&(os.O_WRONLY|os.O_RDWR) != 0 {
			return nil, errModelIsDir
		}
		if flag&os.O_TRUNC != 0 && !f.dir && len(f.data) > 0 {
			m.step("truncate-on-open " + name)
			f.data = nil
			f.mod = m.clock
		}
	}
	h := new(os.File)
	m.fds[h] = &mFD{file: f, name: name, flag: flag}
	return h, nil
}

func ModelOpenFile(name string, flag int, perm os.FileMode) (*os.File, error) {
	return fsys().open(name, flag)
}
func ModelOpen(name string) (*os.File, error)   { return fsys().open(name, os.O_RDONLY) }
func ModelCreate(name string) (*os.File, error) { return fsys().open(name, os.O_RDWR|os.O_CREATE|os.O_TRUNC) }

type mInfo struct {
	name string
	size int64
	dir  bool
	mod  int64
}

func (i mInfo) Name() string { return i.name }
func (i mInfo) Size() int64  { return i.size }
func (i mInfo) Mode() fs.FileMode {
	if i.dir {
		return fs.ModeDir | 0o700
	}
	return 0o600
}
func (i mInfo) ModTime() time.Time         { return time.Unix(0, i.mod) }
func (i mInfo) IsDir() bool                { return i.dir }
func (i mInfo) Sys() interface{}           { return nil }
func (i mInfo) Type() fs.FileMode          { return i.Mode() & fs.ModeType }
func (i mInfo) Info() (fs.FileInfo, error) { return i, nil }

func ModelStat(name string) (os.FileInfo, error) {
	m := fsys()
	name = mClean(name)
	f, ok := m.files[name]
	if !ok || m.crashed {
		// a path that runs THROUGH a regular file, or has an over-long component, fails with an error that is not
		// "does not exist" (ENOTDIR / ENAMETOOLONG), as on a real file system
		if !m.crashed {
			if len(mBase(name)) > 255 {
				return nil, errModelNameTooLong
			}
			for par := mParent(name); par != "/"; par = mParent(par) {
				if pf, pok := m.files[par]; pok {
					if !pf.dir {
						return nil, errModelNotDir
					}
					break
				}
			}
		}
		return nil, errModelNotExist
	}
	return mInfo{name: mBase(name), size: int64(len(f.data)), dir: f.dir, mod: f.mod}, nil
}

func ModelMkdirAll(p string, perm os.FileMode) error {
	m := fsys()
	p = mClean(p)
	if m.crashed {
		return errModelCrashed
	}
	if f, ok := m.files[p]; ok {
		if f.dir {
			return nil
		}
		return errModelExist
	}
	if par := mParent(p); par != p {
		if err := ModelMkdirAll(par, perm); err != nil {
			return err
		}
	}
	m.step("mkdir " + p)
	m.files[p] = &mFile{dir: true, mod: m.clock}
	return nil
}

func ModelReadDir(dir string) ([]os.DirEntry, error) {
	m := fsys()
	dir = mClean(dir)
	d, ok := m.files[dir]
	if !ok || m.crashed {
		return nil, errModelNotExist
	}
	if !d.dir {
		return nil, errModelIsDir
	}
	var names []string
	prefix := dir + "/"
	if dir == "/" {
		prefix = "/"
	}
	for p := range m.files {
		if len(p) > len(prefix) && p[:len(prefix)] == prefix && !mHasSlash(p[len(prefix):]) {
			names = append(names, p)
		}
	}
	sort.Strings(names)
	var out []os.DirEntry
	for _, p := range names {
		f := m.files[p]
		out = append(out, mInfo{name: mBase(p), size: int64(len(f.data)), dir: f.dir, mod: f.mod})
	}
	return out, nil
}

func ModelRemoveAll(p string) error {
	m := fsys()
	p = mClean(p)
	if m.crashed {
		return errModelCrashed
	}
	if _, ok := m.files[p]; !ok {
		return nil
	}
	m.step("remove-all " + p)
	var doomed []string
	for q := range m.files {
		if q == p || (len(q) > len(p) && q[:len(p)] == p && q[len(p)] == '/') {
			doomed = append(doomed, q)
		}
	}
	for _, q := range doomed {
		delete(m.files, q)
	}
	return nil
}

func ModelRemove(p string) error {
	m := fsys()
	p = mClean(p)
	if _, ok := m.files[p]; !ok || m.crashed {
		return errModelNotExist
	}
	m.step("remove " + p)
	delete(m.files, p)
	return nil
}

func ModelReadFile(name string) ([]byte, error) {
	m := fsys()
	f, ok := m.files[mClean(name)]
	if !ok || m.crashed {
		return nil, errModelNotExist
	}
	return append([]byte{}, f.data...), nil
}

func ModelWriteFile(name string, data []byte, perm os.FileMode) error {
	h, err := fsys().open(name, os.O_WRONLY|os.O_CREATE|os.O_TRUNC)
	if err != nil {
		return err
	}
	_, err = ModelFileWrite(h, data)
	_ = ModelFileClose(h)
	return err
}

func ModelIsNotExist(err error) bool { return errors.Is(err, fs.ErrNotExist) }
func ModelIsExist(err error) bool    { return errors.Is(err, fs.ErrExist) }
func ModelOSTempDir() string         { return "/tmp" }
func ModelGetenv(string) string      { return "" }
func ModelSetenv(k, v string) error  { return nil }

// ModelIsTimeout is os.IsTimeout: true for errors that say so themselves.
func ModelIsTimeout(err error) bool {
	t, ok := err.(interface{ Timeout() bool })
	return ok && t.Timeout()
}

// ---- *os.File ----

func (m *mFS) fd(f *os.File) (*mFD, error) {
	if f == nil {
		return nil, fs.ErrInvalid
	}
	d, ok := m.fds[f]
	if !ok || d.closed {
		return nil, errModelClosed
	}
	if m.crashed {
		return nil, errModelCrashed
	}
	return d, nil
}

func ModelFileRead(f *os.File, b []byte) (int, error) {
	d, err := fsys().fd(f)
	if err != nil {
		return 0, err
	}
	if d.file.dir {
		return 0, errModelIsDir
	}
	if len(b) == 0 {
		return 0, nil
	}
	if d.pos >= int64(len(d.file.data)) {
		return 0, io.EOF
	}
	n := copy(b, d.file.data[d.pos:])
	d.pos += int64(n)
	return n, nil
}

func ModelFileWrite(f *os.File, b []byte) (int, error) {
	m := fsys()
	d, err := m.fd(f)
	if err != nil {
		return 0, err
	}
	if d.flag&(os.O_WRONLY|os.O_RDWR) == 0 {
		return 0, &fs.PathError{Op: "write", Path: d.name, Err: errors.New("bad file descriptor")}
	}
	if len(b) == 0 {
		return 0, nil
	}
	m.step("write " + d.name)
	if d.flag&os.O_APPEND != 0 {
		d.pos = int64(len(d.file.data))
	}
	for int64(len(d.file.data)) < d.pos {
		d.file.data = append(d.file.data, 0)
	}
	head := append([]byte{}, d.file.data[:d.pos]...)
	var tail []byte
	if end := d.pos + int64(len(b)); end < int64(len(d.file.data)) {
		tail = append([]byte{}, d.file.data[end:]...)
	}
	d.file.data = append(append(head, b...), tail...)
	d.pos += int64(len(b))
	d.file.mod = m.clock
	return len(b), nil
}

func ModelFileWriteString(f *os.File, s string) (int, error) { return ModelFileWrite(f, []byte(s)) }

func ModelFileReadFrom(f *os.File, r io.Reader) (int64, error) {
	var total int64
	buf := make([]byte, 8)
	for {
		n, err := r.Read(buf)
		if n > 0 {
			if _, werr := ModelFileWrite(f, buf[:n]); werr != nil {
				return total, werr
			}
			total += int64(n)
		}
		if err == io.EOF {
			return total, nil
		}
		if err != nil {
			return total, err
		}
	}
}

// ModelFileWriteTo is io.Copy's fast path for a file source: read to the end, write everything out.
func ModelFileWriteTo(f *os.File, w io.Writer) (int64, error) {
	var total int64
	buf := make([]byte, 8)
	for {
		n, err := ModelFileRead(f, buf)
		if n > 0 {
			wn, werr := w.Write(buf[:n])
			total += int64(wn)
			if werr != nil {
				return total, werr
			}
		}
		if err == io.EOF {
			return total, nil
		}
		if err != nil {
			return total, err
		}
	}
}

func ModelFileSeek(f *os.File, offset int64, whence int) (int64, error) {
	d, err := fsys().fd(f)
	if err != nil {
		return 0, err
	}
	var base int64
	switch whence {
	case 0:
	case 1:
		base = d.pos
	case 2:
		base = int64(len(d.file.data))
	default:
		return 0, &fs.PathError{Op: "seek", Path: d.name, Err: errors.New("invalid argument")}
	}
	if base+offset < 0 {
		return 0, &fs.PathError{Op: "seek", Path: d.name, Err: errors.New("invalid argument")}
	}
	d.pos = base + offset
	return d.pos, nil
}

func ModelFileTruncate(f *os.File, size int64) error {
	m := fsys()
	d, err := m.fd(f)
	if err != nil {
		return err
	}
	if size < 0 {
		return &fs.PathError{Op: "truncate", Path: d.name, Err: errors.New("invalid argument")}
	}
	if size == int64(len(d.file.data)) {
		return nil
	}
	m.step("truncate " + d.name)
	if size < int64(len(d.file.data)) {
		d.file.data = append([]byte{}, d.file.data[:size]...)
	} else {
		for int64(len(d.file.data)) < size {
			d.file.data = append(d.file.data, 0)
		}
	}
	d.file.mod = m.clock
	return nil
}

func ModelFileClose(f *os.File) error {
	m := fsys()
	if f == nil {
		return fs.ErrInvalid
	}
	d, ok := m.fds[f]
	if !ok || d.closed {
		return errModelClosed
	}
	d.closed = true
	return nil
}

func ModelFileStat(f *os.File) (os.FileInfo, error) {
	d, err := fsys().fd(f)
	if err != nil {
		return nil, err
	}
	return mInfo{name: mBase(d.name), size: int64(len(d.file.data)), dir: d.file.dir, mod: d.file.mod}, nil
}

func ModelFileName(f *os.File) string {
	if f == nil {
		// (*os.File).Name reads a field of the receiver: on a nil *os.File the real method panics
		panic("runtime error: invalid memory address or nil pointer dereference")
	}
	if d, ok := fsys().fds[f]; ok {
		return d.name
	}
	return ""
}

func ModelFileSync(f *os.File) error { return nil }

// ---- lockedfile ----

// ModelLockedOpenFile opens (creating / truncating as asked) the file and takes the exclusive advisory
// lock that belongs to it, blocking while another open file description holds it.
func ModelLockedOpenFile(name string, flag int, perm os.FileMode) (*lockedfile.File, error) {
	m := fsys()
	// lockedfile opens without O_TRUNC, locks, then truncates
	h, err := m.open(name, flag&^os.O_TRUNC)
	if err != nil {
		return nil, err
	}
	d := m.fds[h]
	l, ok := m.locks[d.file]
	if !ok {
		l = make(chan struct{}, 1)
		m.locks[d.file] = l
	}
	l <- struct{}{} // blocks while held
	if m.crashed {
		<-l
		return nil, errModelCrashed
	}
	d.lock = l
	m.held = append(m.held, l)
	if flag&os.O_TRUNC != 0 && len(d.file.data) > 0 {
		m.step("truncate-locked " + d.name)
		d.file.data = nil
	}
	lf := new(lockedfile.File)
	m.lfs[lf] = h
	return lf, nil
}

func ModelLockedClose(lf *lockedfile.File) error {
	m := fsys()
	h, ok := m.lfs[lf]
	if !ok {
		return errModelClosed
	}
	d := m.fds[h]
	if d.closed {
		return errModelClosed
	}
	d.closed = true
	if d.lock != nil {
		l := d.lock
		d.lock = nil
		select {
		case <-l:
		default:
		}
		for i, x := range m.held {
			if x == l {
				m.held = append(append([]chan struct{}{}, m.held[:i]...), m.held[i+1:]...)
				break
			}
		}
	}
	return nil
}
