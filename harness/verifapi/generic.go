package verifapi

import "reflect"

// PutIf inserts m[k]=v when c holds. Under the engine the entry's presence is the symbolic
// boolean c (no fork); k must differ from the keys already in m.
func PutIf[K comparable, V any](m map[K]V, k K, v V, c bool) {
	if c {
		m[k] = v
	}
}

// DeepCopy snapshots a value (maps, slices, pointers and structs are copied recursively).
func DeepCopy[T any](v T) T {
	out := deepCopyValue(reflect.ValueOf(&v).Elem())
	return out.Interface().(T)
}

// DeepEqual is reflect.DeepEqual as a single term under the engine.
func DeepEqual[T any](a, b T) bool { return reflect.DeepEqual(a, b) }

func deepCopyValue(v reflect.Value) reflect.Value {
	switch v.Kind() {
	case reflect.Map:
		if v.IsNil() {
			return v
		}
		out := reflect.MakeMapWithSize(v.Type(), v.Len())
		it := v.MapRange()
		for it.Next() {
			out.SetMapIndex(it.Key(), deepCopyValue(it.Value()))
		}
		return out
	case reflect.Slice:
		if v.IsNil() {
			return v
		}
		out := reflect.MakeSlice(v.Type(), v.Len(), v.Len())
		for i := 0; i < v.Len(); i++ {
			out.Index(i).Set(deepCopyValue(v.Index(i)))
		}
		return out
	case reflect.Ptr:
		if v.IsNil() {
			return v
		}
		out := reflect.New(v.Type().Elem())
		out.Elem().Set(deepCopyValue(v.Elem()))
		return out
	case reflect.Struct:
		out := reflect.New(v.Type()).Elem()
		out.Set(v)
		for i := 0; i < v.NumField(); i++ {
			if out.Field(i).CanSet() {
				out.Field(i).Set(deepCopyValue(v.Field(i)))
			}
		}
		return out
	case reflect.Interface:
		if v.IsNil() {
			return v
		}
		out := reflect.New(v.Type()).Elem()
		out.Set(deepCopyValue(v.Elem()))
		return out
	}
	return v
}
