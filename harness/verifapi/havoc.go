package verifapi

import (
	"reflect"
	"time"
)

var hbStr, hbSlice, hbMap, hbDepth = 1, 1, 2, 4

// HavocBounds sets the bounds used by Havoc: string length, slice length, map entries, nesting depth.
func HavocBounds(str, slice, mapN, depth int) { hbStr, hbSlice, hbMap, hbDepth = str, slice, mapN, depth }

// HeldLocks is the number of sync mutexes currently held (engine only; natively 0).
func HeldLocks() int { return 0 }

// Havoc stores an arbitrary value of the pointee's type into *ptr: every exported field any value,
// strings/slices/maps within HavocBounds, pointers nil or allocated, interface{} any JSON shape.
// The traversal mirrors the engine's (gosym/havoc.go) so that a counterexample replays natively.
func Havoc(ptr interface{}) {
	v := reflect.ValueOf(ptr).Elem()
	v.Set(havoc(v.Type(), 0))
}

func timeTypeOf() reflect.Type { return reflect.TypeOf(time.Time{}) }
func anyTypeOf() reflect.Type  { return reflect.TypeOf((*interface{})(nil)).Elem() }

func havoc(t reflect.Type, depth int) reflect.Value {
	out := reflect.New(t).Elem()
	if t == timeTypeOf() {
		out.Set(reflect.ValueOf(time.Unix(0, Int64())))
		return out
	}
	switch t.Kind() {
	case reflect.Bool:
		out.SetBool(Bool())
	case reflect.Int, reflect.Int8, reflect.Int16, reflect.Int32, reflect.Int64:
		x := Int64()
		bits := uint(t.Bits())
		if bits < 64 {
			x = x << (64 - bits) >> (64 - bits)
		}
		out.SetInt(x)
	case reflect.Uint, reflect.Uint8, reflect.Uint16, reflect.Uint32, reflect.Uint64, reflect.Uintptr:
		x := Uint64()
		bits := uint(t.Bits())
		if bits < 64 {
			x &= (1 << bits) - 1
		}
		out.SetUint(x)
	case reflect.Float32, reflect.Float64:
		out.SetFloat(Float())
	case reflect.String:
		out.SetString(StringUpTo(hbStr))
	case reflect.Ptr:
		if depth >= hbDepth {
			return out
		}
		if Choose(2) == 0 {
			return out
		}
		p := reflect.New(t.Elem())
		p.Elem().Set(havoc(t.Elem(), depth+1))
		out.Set(p)
	case reflect.Struct:
		for i := 0; i < t.NumField(); i++ {
			f := t.Field(i)
			if f.PkgPath != "" { // unexported
				continue
			}
			out.Field(i).Set(havoc(f.Type, depth+1))
		}
	case reflect.Slice:
		if depth >= hbDepth {
			return out
		}
		if t.Elem().Kind() == reflect.Uint8 {
			n := Choose(hbSlice + 2)
			if n == 0 {
				return out
			}
			b := Bytes(n - 1)
			s := reflect.MakeSlice(t, n-1, n-1)
			for i := range b {
				s.Index(i).SetUint(uint64(b[i]))
			}
			out.Set(s)
			return out
		}
		n := Choose(hbSlice + 2)
		if n == 0 {
			return out
		}
		s := reflect.MakeSlice(t, n-1, n-1)
		for i := 0; i < n-1; i++ {
			s.Index(i).Set(havoc(t.Elem(), depth+1))
		}
		out.Set(s)
	case reflect.Map:
		if depth >= hbDepth {
			return out
		}
		if Choose(2) == 0 {
			return out
		}
		m := reflect.MakeMap(t)
		for i := 0; i < hbMap; i++ {
			present := Bool()
			k := havoc(t.Key(), depth+1)
			v := havoc(t.Elem(), depth+1)
			if present {
				m.SetMapIndex(k, v)
			}
		}
		out.Set(m)
	case reflect.Interface:
		if t.NumMethod() != 0 || depth >= hbDepth {
			return out
		}
		switch Choose(6) {
		case 0:
		case 1:
			out.Set(havoc(reflect.TypeOf(true), depth+1))
		case 2:
			out.Set(havoc(reflect.TypeOf(float64(0)), depth+1))
		case 3:
			out.Set(havoc(reflect.TypeOf(""), depth+1))
		case 4:
			out.Set(havoc(reflect.SliceOf(anyTypeOf()), depth+1))
		default:
			out.Set(havoc(reflect.MapOf(reflect.TypeOf(""), anyTypeOf()), depth+1))
		}
	case reflect.Array:
		for i := 0; i < t.Len(); i++ {
			out.Index(i).Set(havoc(t.Elem(), depth+1))
		}
	}
	return out
}
