package netceptor

import (
	"time"

	"github.com/ansible/receptor/internal/verifapi"
)

// C06 - routing knowledge never regresses; updates are applied and relayed at most once.
// Inductive step: ONE update delivered to a node in an ARBITRARY state over the universe
// {A (self), B, C, D}: epochs/sequences/costs are symbolic numbers, presence of edges symbolic.

type verifC06 struct {
	n       *verifNode
	cb, cc  *connInfo
	ri      *routingUpdate
	origin  string
	recv    string
	hadOld  bool
	oldE    uint64
	oldS    uint64
	seen    bool
	pre     map[string]map[string]float64
	otherE  uint64
	otherS  uint64
	other   string
	inConns map[string]float64
	bad     bool // the update carries a non-positive cost (ignored wholesale since fix 9c66014)
}

func verifC06Setup() *verifC06 {
	v := &verifC06{}
	v.n = verifNetceptor("A")
	s := v.n.s
	v.cb = v.n.verifConn("B", 1)
	v.cc = v.n.verifConn("C", 1)
	s.sequence = verifapi.Uint64()
	v.origin = []string{"B", "C", "A", "D"}[verifapi.Choose(4)]
	v.recv = []string{"B", "C"}[verifapi.Choose(2)]
	// knowledge about the origin (arbitrary numbers) - present or not
	v.hadOld = verifapi.Bool()
	v.oldE, v.oldS = verifapi.Uint64(), verifapi.Uint64()
	if v.hadOld && v.origin != "A" {
		s.knownNodeInfo[v.origin] = &nodeInfo{Epoch: v.oldE, Sequence: v.oldS}
	}
	// knowledge about one other node must never be touched
	v.other = "C"
	if v.origin == "C" {
		v.other = "B"
	}
	v.otherE, v.otherS = verifapi.Uint64(), verifapi.Uint64()
	s.knownNodeInfo[v.other] = &nodeInfo{Epoch: v.otherE, Sequence: v.otherS}
	// arbitrary connection picture
	s.knownConnectionCosts["A"] = map[string]float64{"B": 1, "C": 1}
	kb := map[string]float64{}
	verifapi.PutIf(kb, "A", verifapi.Float(), verifapi.Bool())
	verifapi.PutIf(kb, "C", verifapi.Float(), verifapi.Bool())
	kc := map[string]float64{}
	verifapi.PutIf(kc, "A", verifapi.Float(), verifapi.Bool())
	verifapi.PutIf(kc, "B", verifapi.Float(), verifapi.Bool())
	verifapi.PutIf(kc, "D", verifapi.Float(), verifapi.Bool())
	s.knownConnectionCosts["B"] = kb
	s.knownConnectionCosts["C"] = kc
	// the incoming update: every field arbitrary
	v.inConns = map[string]float64{}
	anyBad := false
	for _, k := range []string{"A", "B", "C"} {
		if k != v.origin {
			c, p := verifapi.Float(), verifapi.Bool()
			verifapi.PutIf(v.inConns, k, c, p)
			anyBad = verifapi.Any(anyBad, verifapi.All(p, c <= 0))
		}
	}
	var conns map[string]float64
	if verifapi.Bool() {
		conns = v.inConns
		v.bad = anyBad
	} // else nil map (JSON null / field absent)
	v.ri = &routingUpdate{
		NodeID:             v.origin,
		UpdateID:           "u",
		UpdateEpoch:        verifapi.Uint64(),
		UpdateSequence:     verifapi.Uint64(),
		Connections:        conns,
		ForwardingNode:     v.recv,
		SuspectedDuplicate: verifapi.Uint64(),
	}
	v.seen = verifapi.Bool()
	if v.seen {
		s.seenUpdates["u"] = time.Now()
	}
	v.pre = verifapi.DeepCopy(s.knownConnectionCosts)
	return v
}

func (v *verifC06) outputs() (toB, toC []*routingUpdate) {
	dec := func(ms [][]byte) []*routingUpdate {
		var out []*routingUpdate
		for _, m := range ms {
			ru := &routingUpdate{}
			verifapi.Assert("relay-is-a-routing-message", m[0] == MsgTypeRoute)
			verifapi.Assert("relay-decodes", verifapi.FromJSON(m[1:], ru))
			out = append(out, ru)
		}
		return out
	}
	return dec(verifTake(v.cb)), dec(verifTake(v.cc))
}

func (v *verifC06) costsUnchanged() bool {
	s := v.n.s
	return verifapi.All(
		verifapi.DeepEqual(v.pre["A"], s.knownConnectionCosts["A"]),
		verifapi.DeepEqual(v.pre["B"], s.knownConnectionCosts["B"]),
		verifapi.DeepEqual(v.pre["C"], s.knownConnectionCosts["C"]),
		verifapi.DeepEqual(v.pre["D"], s.knownConnectionCosts["D"]))
}

func (v *verifC06) infoUnchanged() bool {
	s := v.n.s
	ni, ok := s.knownNodeInfo[v.origin]
	if !v.hadOld || v.origin == "A" {
		return !ok
	}
	return ok && ni.Epoch == v.oldE && ni.Sequence == v.oldS
}

// Verif_C06_step: one delivery from an arbitrary state.
func Verif_C06_step() {
	v := verifC06Setup()
	s := v.n.s
	ri := v.ri
	inE, inS, inSD := ri.UpdateEpoch, ri.UpdateSequence, ri.SuspectedDuplicate
	inConnsCopy := verifapi.DeepCopy(ri.Connections)
	s.handleRoutingUpdate(ri, v.recv)
	verifapi.Quiesce()
	toB, toC := v.outputs()
	nOut := len(toB) + len(toC)

	// the other node's record is never touched, whatever arrives
	on := s.knownNodeInfo[v.other]
	verifapi.Assert("unrelated-node-untouched", verifapi.All(on != nil, on.Epoch == v.otherE, on.Sequence == v.otherS))

	if v.bad {
		// 0. an update carrying a non-positive cost is ignored wholesale (it could wedge the table computation)
		verifapi.Cover("non-positive-cost")
		verifapi.Assert("bad-cost-update-changes-nothing", verifapi.All(v.costsUnchanged(), v.infoUnchanged()))
		verifapi.Assert("bad-cost-update-not-relayed", nOut == 0)
		verifapi.Assert("bad-cost-update-no-shutdown", s.context.Err() == nil)
		return
	}

	if v.origin == "A" {
		// 5. updates naming ourselves never modify our picture
		verifapi.Assert("self-origin-never-changes-knowledge", verifapi.All(v.costsUnchanged(), v.infoUnchanged()))
		if inE == s.epoch {
			verifapi.Cover("own-current-run")
			verifapi.Assert("own-update-not-relayed", nOut == 0)
			verifapi.Assert("own-update-no-shutdown", s.context.Err() == nil)
		} else if inSD == s.epoch {
			verifapi.Cover("we-are-the-duplicate")
			verifapi.Assert("duplicate-shuts-down", s.context.Err() != nil)
			verifapi.Assert("duplicate-floods-nothing", nOut == 0)
		} else if inE > s.epoch {
			verifapi.Cover("newer-duplicate-detected")
			verifapi.Assert("notice-to-every-neighbour", verifapi.All(len(toB) == 1, len(toC) == 1))
			verifapi.Assert("notice-names-their-epoch", verifapi.All(toB[0].SuspectedDuplicate == inE, toB[0].NodeID == "A", toB[0].UpdateEpoch == s.epoch))
			verifapi.Assert("earlier-node-keeps-running", s.context.Err() == nil)
		} else {
			verifapi.Cover("older-self-update")
			verifapi.Assert("older-self-update-ignored", verifapi.All(nOut == 0, s.context.Err() == nil))
		}
		return
	}
	if v.seen {
		// 1. replay of an update already seen
		verifapi.Cover("seen-replay")
		verifapi.Assert("replay-changes-nothing", verifapi.All(v.costsUnchanged(), v.infoUnchanged()))
		verifapi.Assert("replay-not-relayed", nOut == 0)
		return
	}
	if inSD != 0 {
		// 6. a duplicate notice never changes the connection picture; it is relayed once
		verifapi.Cover("notice")
		verifapi.Assert("notice-keeps-costs", v.costsUnchanged())
	} else {
		stale := v.hadOld && (inE < v.oldE || (inE == v.oldE && inS <= v.oldS))
		if stale {
			// 2. older or equal: no change, no relay
			verifapi.Cover("stale")
			verifapi.Assert("stale-changes-nothing", verifapi.All(v.costsUnchanged(), v.infoUnchanged()))
			verifapi.Assert("stale-not-relayed", nOut == 0)
			return
		}
		// 3. accepted: the picture of the origin becomes exactly the update
		verifapi.Cover("accepted")
		ni := s.knownNodeInfo[v.origin]
		verifapi.Assert("accepted-record-is-update", verifapi.All(ni != nil, ni.Epoch == inE, ni.Sequence == inS))
		if v.hadOld {
			verifapi.Assert("accepted-is-strictly-newer", inE > v.oldE || (inE == v.oldE && inS > v.oldS))
		}
		got := s.knownConnectionCosts[v.origin]
		if len(inConnsCopy) == 0 && len(v.pre[v.origin]) == 0 {
			verifapi.Cover("empty-picture")
		} else {
			verifapi.Assert("origin-edges-equal-update", verifapi.DeepEqual(got, inConnsCopy) || (len(got) == 0 && len(inConnsCopy) == 0))
		}
		// edges x->origin are pruned exactly for the x (other than self) the origin no longer lists
		for _, x := range []string{"B", "C"} {
			if x == v.origin {
				continue
			}
			_, listed := inConnsCopy[x]
			_, before := v.pre[x][v.origin]
			_, after := s.knownConnectionCosts[x][v.origin]
			changed := !verifapi.DeepEqual(v.pre[v.origin], inConnsCopy)
			if changed && !listed {
				verifapi.Assert("reverse-edge-pruned", !after)
			} else {
				verifapi.Assert("reverse-edge-kept", after == before)
			}
		}
		verifapi.Assert("own-edges-never-pruned", verifapi.DeepEqual(v.pre["A"], s.knownConnectionCosts["A"]))
	}
	// 4. relay: to every connection except the one it came from, exactly once, unchanged but for the forwarder
	var back, fwd []*routingUpdate
	if v.recv == "B" {
		back, fwd = toB, toC
	} else {
		back, fwd = toC, toB
	}
	verifapi.Assert("never-relayed-back", len(back) == 0)
	verifapi.Assert("relayed-once-to-the-other", len(fwd) == 1)
	r := fwd[0]
	verifapi.Assert("relay-forwarder-is-self", r.ForwardingNode == "A")
	verifapi.Assert("relay-content-unchanged", verifapi.All(r.NodeID == v.origin, r.UpdateID == "u", r.UpdateEpoch == inE,
		r.UpdateSequence == inS, r.SuspectedDuplicate == inSD, verifapi.DeepEqual(r.Connections, inConnsCopy)))
}

// Verif_C06_twice: the same update delivered twice (second time on either connection) is applied
// and relayed at most once; after the seen-table forgot it, the epoch/sequence test still stops it.
func Verif_C06_twice() {
	v := verifC06Setup()
	s := v.n.s
	verifapi.Assume(v.origin != "A")
	verifapi.Assume(!v.seen)
	verifapi.Assume(v.ri.SuspectedDuplicate == 0)
	verifapi.Assume(!v.bad)
	second := *v.ri
	second.Connections = verifapi.DeepCopy(v.ri.Connections)
	s.handleRoutingUpdate(v.ri, v.recv)
	verifapi.Quiesce()
	_, _ = v.outputs()
	if verifapi.Bool() {
		verifapi.Cover("seen-table-expired")
		delete(s.seenUpdates, "u")
	}
	mid := verifapi.DeepCopy(s.knownConnectionCosts)
	ni := s.knownNodeInfo[v.origin]
	var midE, midS uint64
	if ni != nil {
		midE, midS = ni.Epoch, ni.Sequence
	}
	recv2 := []string{"B", "C"}[verifapi.Choose(2)]
	second.ForwardingNode = recv2
	s.handleRoutingUpdate(&second, recv2)
	verifapi.Quiesce()
	toB, toC := v.outputs()
	verifapi.Cover("second-delivery")
	verifapi.Assert("second-delivery-not-relayed", len(toB)+len(toC) == 0)
	ni2 := s.knownNodeInfo[v.origin]
	if ni != nil {
		verifapi.Assert("second-delivery-keeps-record", verifapi.All(ni2 != nil, ni2.Epoch == midE, ni2.Sequence == midS))
	}
	verifapi.Assert("second-delivery-keeps-costs", verifapi.All(
		verifapi.DeepEqual(mid["A"], s.knownConnectionCosts["A"]), verifapi.DeepEqual(mid["B"], s.knownConnectionCosts["B"]),
		verifapi.DeepEqual(mid["C"], s.knownConnectionCosts["C"]), verifapi.DeepEqual(mid["D"], s.knownConnectionCosts["D"])))
}

// Verif_C06_notice_then_stale: a suspected-duplicate notice of an origin (every field arbitrary) that
// does not concern the run recorded for that origin (its SuspectedDuplicate differs from the recorded
// epoch) is followed by an ordinary update of the same origin that is older than or equal to what had
// been accepted before the notice: the late update still changes nothing and is not relayed - a notice
// is no way to move the record backwards.
func Verif_C06_notice_then_stale() {
	v := verifC06Setup()
	s := v.n.s
	verifapi.Assume(verifapi.All(v.origin != "A", !v.seen, !v.bad, v.hadOld, v.ri.SuspectedDuplicate != 0, v.ri.SuspectedDuplicate != v.oldE))
	s.handleRoutingUpdate(v.ri, v.recv)
	verifapi.Quiesce()
	_, _ = v.outputs()
	mid := verifapi.DeepCopy(s.knownConnectionCosts)
	e2, s2 := verifapi.Uint64(), verifapi.Uint64()
	verifapi.Assume(verifapi.Any(e2 < v.oldE, verifapi.All(e2 == v.oldE, s2 <= v.oldS)))
	conns := map[string]float64{}
	for _, k := range []string{"A", "B", "C"} {
		if k != v.origin {
			c := verifapi.Float()
			verifapi.Assume(c > 0)
			verifapi.PutIf(conns, k, c, verifapi.Bool())
		}
	}
	recv2 := []string{"B", "C"}[verifapi.Choose(2)]
	late := &routingUpdate{NodeID: v.origin, UpdateID: "late", UpdateEpoch: e2, UpdateSequence: s2, Connections: conns, ForwardingNode: recv2}
	s.handleRoutingUpdate(late, recv2)
	verifapi.Quiesce()
	toB, toC := v.outputs()
	verifapi.Cover("late-update-after-notice")
	verifapi.Assert("late-update-after-notice-not-relayed", len(toB)+len(toC) == 0)
	verifapi.Assert("late-update-after-notice-keeps-picture", verifapi.All(
		verifapi.DeepEqual(mid["A"], s.knownConnectionCosts["A"]), verifapi.DeepEqual(mid["B"], s.knownConnectionCosts["B"]),
		verifapi.DeepEqual(mid["C"], s.knownConnectionCosts["C"]), verifapi.DeepEqual(mid["D"], s.knownConnectionCosts["D"])))
	verifapi.Assert("late-update-after-notice-keeps-record", v.infoUnchanged())
}

// Verif_C06_link_loss_then_stale: the node's own link to the origin is lost (removeConnection, as every
// session end does) and afterwards an update of that origin which is older than or equal to the one
// accepted before arrives through the other neighbour: losing a link is no reason to forget how far the
// origin's updates had progressed - the late update changes nothing and is not relayed.
func Verif_C06_link_loss_then_stale() {
	v := verifC06Setup()
	s := v.n.s
	verifapi.Assume(verifapi.All(v.origin == "B", v.hadOld, !v.bad, !v.seen, v.ri.SuspectedDuplicate == 0))
	e2, s2 := v.ri.UpdateEpoch, v.ri.UpdateSequence
	verifapi.Assume(verifapi.Any(e2 < v.oldE, verifapi.All(e2 == v.oldE, s2 <= v.oldS)))
	s.removeConnection("B")
	verifapi.Quiesce()
	mid := verifapi.DeepCopy(s.knownConnectionCosts)
	v.ri.ForwardingNode = "C"
	s.handleRoutingUpdate(v.ri, "C")
	verifapi.Quiesce()
	_, toC := v.outputs()
	verifapi.Cover("late-update-after-link-loss")
	verifapi.Assert("late-update-after-link-loss-not-relayed", len(toC) == 0)
	verifapi.Assert("late-update-after-link-loss-keeps-picture", verifapi.All(
		verifapi.DeepEqual(mid["A"], s.knownConnectionCosts["A"]), verifapi.DeepEqual(mid["B"], s.knownConnectionCosts["B"]),
		verifapi.DeepEqual(mid["C"], s.knownConnectionCosts["C"]), verifapi.DeepEqual(mid["D"], s.knownConnectionCosts["D"])))
	verifapi.Assert("late-update-after-link-loss-keeps-record", v.infoUnchanged())
}

// Verif_C06_concurrent_deliveries: two different updates of one origin (same epoch, sequences n and
// n+1, different neighbour sets) are handled at the same time by two sessions (two goroutines, every
// schedule within the pre-emption bound): whichever order they are processed in, the node ends up with
// the newer one - its record, its neighbour set - never with the older one on top of the newer.
func Verif_C06_concurrent_deliveries() {
	n := verifNetceptor("A")
	s := n.s
	n.verifConn("B", 1)
	n.verifConn("C", 1)
	known := verifapi.Bool()
	seq := verifapi.Uint64()
	verifapi.Assume(verifapi.All(seq > 1, seq < 1000))
	if known {
		s.knownNodeInfo["X"] = &nodeInfo{Epoch: 7, Sequence: seq - 1}
		s.knownConnectionCosts["X"] = map[string]float64{"P": 1}
	}
	older := &routingUpdate{NodeID: "X", UpdateID: "o", UpdateEpoch: 7, UpdateSequence: seq, Connections: map[string]float64{"OLD": 1}, ForwardingNode: "B"}
	newer := &routingUpdate{NodeID: "X", UpdateID: "n", UpdateEpoch: 7, UpdateSequence: seq + 1, Connections: map[string]float64{"NEW": 2}, ForwardingNode: "C"}
	verifapi.ExploreSchedules(2 + verifapi.Tier())
	done := make(chan bool, 2)
	go func() { s.handleRoutingUpdate(older, "B"); done <- true }()
	go func() { s.handleRoutingUpdate(newer, "C"); done <- true }()
	<-done
	<-done
	verifapi.ExploreSchedules(0)
	verifapi.Quiesce()
	verifapi.Cover("both-handled")
	ni := s.knownNodeInfo["X"]
	verifapi.Assert("record-is-the-newer-update", verifapi.All(ni != nil, ni.Epoch == 7, ni.Sequence == seq+1))
	_, hasNew := s.knownConnectionCosts["X"]["NEW"]
	_, hasOld := s.knownConnectionCosts["X"]["OLD"]
	verifapi.Assert("picture-is-the-newer-update", verifapi.All(hasNew, !hasOld))
	verifapi.Assert("no-lock-left-held", verifapi.HeldLocks() == 0)
}

// Verif_C06_seen_table_keeps_entries_for_the_full_expiry_time: one sweep of expireSeenUpdates over an
// update ID seen at an arbitrary instant: an entry younger than seenUpdateExpireTime at the time of the
// sweep is still there afterwards (a replay of that update - a suspected-duplicate notice has no other
// guard - is still recognised), whatever its age below that limit.
func Verif_C06_seen_table_keeps_entries_for_the_full_expiry_time() {
	n := verifNetceptor("A")
	s := n.s
	seenAt := verifapi.Int64()
	verifapi.Assume(verifapi.All(seenAt > 0, seenAt < 1<<60))
	s.seenUpdates["u"] = time.Unix(0, seenAt)
	go s.expireSeenUpdates()
	verifapi.Quiesce()
	verifapi.AdvanceTime(s.seenUpdateExpireTime / 2)
	verifapi.Quiesce()
	after := time.Now()
	verifapi.Cover("one-sweep")
	s.seenUpdatesLock.RLock()
	_, kept := s.seenUpdates["u"]
	s.seenUpdatesLock.RUnlock()
	if !kept {
		verifapi.Assert("entry-dropped-only-after-the-full-expiry-time", after.Sub(time.Unix(0, seenAt)) >= s.seenUpdateExpireTime)
	}
	s.cancelFunc()
	verifapi.Quiesce()
}

// Verif_C06_picture_survives_a_direct_link_coming_up: node B is already known through the mesh (its
// accepted update lists its links to C and D); then B connects directly (real protocol loop, handshake
// only - B's next update has not arrived yet). The picture of B keeps everything the accepted update
// said: a link coming up adds the edge to us, it does not take B's other links away.
func Verif_C06_picture_survives_a_direct_link_coming_up() {
	verifapi.SelectFork(false)
	n := verifNetceptor("A")
	s := n.s
	n.verifConn("C", 1)
	s.knownConnectionCosts["A"] = map[string]float64{"C": 1}
	s.knownConnectionCosts["B"] = map[string]float64{"C": 1, "D": 1}
	s.knownConnectionCosts["C"] = map[string]float64{"A": 1, "B": 1}
	s.knownNodeInfo["B"] = &nodeInfo{Epoch: 5, Sequence: 7}
	// the handshake is an update that repeats nothing new about B (same epoch and sequence as already accepted)
	hs := &routingUpdate{NodeID: "B", UpdateID: "hs", UpdateEpoch: 5, UpdateSequence: 7, Connections: map[string]float64{"A": 1}, ForwardingNode: "B"}
	r := verifStartProtocol(n, [][]byte{append([]byte{MsgTypeRoute}, verifapi.JSON(hs)...)}, &BackendInfo{connectionCost: 1})
	verifapi.Quiesce()
	verifapi.Cover("direct-link-up")
	_, up := s.connections["B"]
	verifapi.Assert("direct-link-established", up)
	kb := s.knownConnectionCosts["B"]
	verifapi.Assert("accepted-picture-of-the-origin-kept", verifapi.All(kb["C"] == 1, kb["D"] == 1))
	verifapi.Assert("edge-to-us-added", kb["A"] == 1)
	close(r.sess.gate)
	verifapi.Quiesce()
}
