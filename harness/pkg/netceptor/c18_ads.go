package netceptor

import (
	"time"

	"github.com/ansible/receptor/internal/verifapi"
)

// C18 - service advertisements: newer wins, a withdrawn service is never resurrected.

type verifAdMsg struct {
	node, service string
	t             int64
	cancel        bool
	connType      byte
	tag           string
}

func (m *verifAdMsg) wire() []byte {
	sa := &serviceAdvertisementFull{ServiceAdvertisement: &ServiceAdvertisement{NodeID: m.node, Service: m.service,
		Time: time.Unix(0, m.t), ConnType: m.connType, Tags: map[string]string{"k": m.tag}}, Cancel: m.cancel}
	return append([]byte{MsgTypeServiceAdvertisement}, verifapi.JSON(sa)...)
}

func verifAnyAd(node, service string) *verifAdMsg {
	return &verifAdMsg{node: node, service: service, t: verifapi.Int64(), cancel: verifapi.Bool(), connType: verifapi.Byte(), tag: verifapi.String(1)}
}

func verifAdOutputs(cs ...*connInfo) (n int, msgs []*serviceAdvertisementFull) {
	for _, c := range cs {
		for _, w := range verifTake(c) {
			n++
			sa := &serviceAdvertisementFull{}
			verifapi.Assert("relay-is-an-advertisement", w[0] == MsgTypeServiceAdvertisement)
			verifapi.Assert("relay-decodes", verifapi.FromJSON(w[1:], sa))
			msgs = append(msgs, sa)
		}
	}
	return n, msgs
}

// Verif_C18_step: one advertisement message (every field arbitrary) delivered to a node whose table
// holds, or does not hold, an earlier record for the same or another (node, service).
func Verif_C18_step() {
	n := verifNetceptor("A")
	s := n.s
	cb := n.verifConn("B", 1)
	cc := n.verifConn("C", 1)
	had := verifapi.Bool()
	oldT := verifapi.Int64()
	oldType := verifapi.Byte()
	if had {
		s.serviceAdsReceived["X"] = map[string]*ServiceAdvertisement{"s": {NodeID: "X", Service: "s", Time: time.Unix(0, oldT), ConnType: oldType, Tags: map[string]string{"k": "o"}}}
	}
	// ... or the node has learned earlier that X:s was withdrawn at time oldT (state reached by delivering a withdrawal)
	withdrawnBefore := !had && verifapi.Bool()
	if withdrawnBefore {
		_ = s.handleServiceAdvertisement((&verifAdMsg{node: "X", service: "s", t: oldT, cancel: true}).wire(), "C")
		verifapi.Quiesce()
		verifTake(cb)
		verifTake(cc)
	}
	// an unrelated record that must never be touched
	s.serviceAdsReceived["Y"] = map[string]*ServiceAdvertisement{"u": {NodeID: "Y", Service: "u", Time: time.Unix(0, 77), ConnType: 9}}
	m := verifAnyAd([]string{"X", "Z"}[verifapi.Choose(2)], []string{"s", "t"}[verifapi.Choose(2)])
	err := s.handleServiceAdvertisement(m.wire(), "B")
	verifapi.Quiesce()
	verifapi.Assert("well-formed-advertisement-accepted", err == nil)
	nb, _ := verifAdOutputs(cb)
	nc, relayed := verifAdOutputs(cc)
	verifapi.Assert("never-relayed-back-to-sender", nb == 0)
	y := s.serviceAdsReceived["Y"]["u"]
	verifapi.Assert("unrelated-record-untouched", verifapi.All(y != nil, y.ConnType == 9, y.Time.Equal(time.Unix(0, 77)), len(s.serviceAdsReceived["Y"]) == 1))
	same := had && m.node == "X" && m.service == "s"
	cur, listed := s.serviceAdsReceived[m.node][m.service]
	if withdrawnBefore && m.node == "X" && m.service == "s" && m.t <= oldT {
		verifapi.Cover("not-newer-than-withdrawal")
		verifapi.Assert("withdrawn-stays-withdrawn", !listed)
		verifapi.Assert("stale-after-withdrawal-not-relayed", nc == 0)
		return
	}
	if same && m.t <= oldT {
		verifapi.Cover("not-newer")
		verifapi.Assert("older-or-equal-never-replaces", verifapi.All(listed, cur.Time.Equal(time.Unix(0, oldT)), cur.ConnType == oldType, cur.Tags["k"] == "o"))
		verifapi.Assert("older-or-equal-not-relayed", nc == 0)
		return
	}
	if m.cancel {
		verifapi.Cover("withdrawn")
		verifapi.Assert("withdrawn-service-unlisted", !listed)
		_, ok := s.GetServiceInfo(m.node, m.service)
		verifapi.Assert("withdrawn-service-not-reported", !ok)
	} else {
		verifapi.Cover("stored")
		verifapi.Assert("newer-advertisement-stored", verifapi.All(listed, cur.NodeID == m.node, cur.Service == m.service, cur.Time.Equal(time.Unix(0, m.t)),
			cur.ConnType == m.connType, cur.Tags["k"] == m.tag))
	}
	if had && !same {
		o := s.serviceAdsReceived["X"]["s"]
		verifapi.Assert("other-service-untouched", verifapi.All(o != nil, o.Time.Equal(time.Unix(0, oldT)), o.ConnType == oldType))
	}
	verifapi.Assert("relayed-once-to-other-neighbour", nc == 1)
	r := relayed[0]
	verifapi.Assert("relay-content-unchanged", verifapi.All(r.ServiceAdvertisement != nil, r.NodeID == m.node, r.Service == m.service, r.Cancel == m.cancel,
		r.Time.Equal(time.Unix(0, m.t)), r.ConnType == m.connType, r.Tags["k"] == m.tag))
	verifapi.Assert("no-lock-left-held", verifapi.HeldLocks() == 0)
}

func verifListed(s *Netceptor, node, service string) (listed bool, t int64, connType byte) {
	cur, ok := s.serviceAdsReceived[node][service]
	if !ok {
		return false, 0, 0
	}
	return true, cur.Time.UnixNano(), cur.ConnType
}

// Verif_C18_order_independent: two messages about one (node, service) with different origin
// timestamps, delivered in either order (each flood is written by its own goroutine, so even a single
// link can reorder them): the final table is that of delivering only the later one. In particular
// cancel(t2) followed by the stale advertisement(t1 < t2) leaves the service unlisted.
func Verif_C18_order_independent() {
	mk := func() (*verifNode, *Netceptor) {
		n := verifNetceptor("A")
		n.verifConn("B", 1)
		return n, n.s
	}
	m1 := verifAnyAd("X", "s")
	m2 := verifAnyAd("X", "s")
	verifapi.Assume(m1.t < m2.t)
	verifapi.Assume(m1.t > 0) // time.Time zero value aside
	_, fwd := mk()
	_ = fwd.handleServiceAdvertisement(m1.wire(), "B")
	_ = fwd.handleServiceAdvertisement(m2.wire(), "B")
	_, rev := mk()
	_ = rev.handleServiceAdvertisement(m2.wire(), "B")
	_ = rev.handleServiceAdvertisement(m1.wire(), "B")
	_, only := mk()
	_ = only.handleServiceAdvertisement(m2.wire(), "B")
	verifapi.Quiesce()
	lo, to, co := verifListed(only, "X", "s")
	lf, tf, cf := verifListed(fwd, "X", "s")
	lr, tr, cr := verifListed(rev, "X", "s")
	verifapi.Cover("delivered-both-orders")
	verifapi.Assert("reference-is-later-message", lo == !m2.cancel)
	verifapi.Assert("in-order-delivery-equals-later-message", verifapi.All(lf == lo, tf == to, cf == co))
	verifapi.Known("stale-advertisement-after-withdrawal", verifapi.All(m2.cancel, !m1.cancel))
	verifapi.Assert("reordered-delivery-equals-later-message", verifapi.All(lr == lo, tr == to, cr == co))
}

// Verif_C18_three_messages: three messages about one (node, service) with pairwise different origin
// timestamps in every one of the six delivery orders: the table always ends up as if only the latest
// had been delivered.
func Verif_C18_three_messages() {
	ms := []*verifAdMsg{verifAnyAd("X", "s"), verifAnyAd("X", "s"), verifAnyAd("X", "s")}
	verifapi.Assume(verifapi.All(ms[0].t > 0, ms[0].t < ms[1].t, ms[1].t < ms[2].t))
	perm := [][]int{{0, 1, 2}, {0, 2, 1}, {1, 0, 2}, {1, 2, 0}, {2, 0, 1}, {2, 1, 0}}[verifapi.Choose(6)]
	n := verifNetceptor("A")
	n.verifConn("B", 1)
	for _, i := range perm {
		_ = n.s.handleServiceAdvertisement(ms[i].wire(), "B")
	}
	verifapi.Quiesce()
	l, t, c := verifListed(n.s, "X", "s")
	verifapi.Cover("delivered")
	if ms[2].cancel {
		verifapi.Assert("latest-is-withdrawal-so-unlisted", !l)
	} else {
		verifapi.Assert("latest-advertisement-wins", verifapi.All(l, t == ms[2].t, c == ms[2].connType))
	}
}

// Verif_C18_four_messages (thorough tier): four messages about one service with pairwise different
// timestamps, delivered as any permutation given by three adjacent swaps of the in-order sequence chosen
// freely (every one of the 24 orders is reachable): the table ends as if only the latest had been delivered.
func Verif_C18_four_messages() {
	if verifapi.Tier() == 0 {
		verifapi.Cover("delivered")
		return
	}
	ms := []*verifAdMsg{verifAnyAd("X", "s"), verifAnyAd("X", "s"), verifAnyAd("X", "s"), verifAnyAd("X", "s")}
	verifapi.Assume(verifapi.All(ms[0].t > 0, ms[0].t < ms[1].t, ms[1].t < ms[2].t, ms[2].t < ms[3].t))
	order := []int{0, 1, 2, 3}
	// Fisher-Yates with explored choices: every permutation
	for i := 3; i > 0; i-- {
		j := verifapi.Choose(i + 1)
		order[i], order[j] = order[j], order[i]
	}
	n := verifNetceptor("A")
	n.verifConn("B", 1)
	for _, i := range order {
		_ = n.s.handleServiceAdvertisement(ms[i].wire(), "B")
	}
	verifapi.Quiesce()
	l, t, c := verifListed(n.s, "X", "s")
	verifapi.Cover("delivered")
	if ms[3].cancel {
		verifapi.Assert("latest-is-withdrawal-so-unlisted", !l)
	} else {
		verifapi.Assert("latest-advertisement-wins", verifapi.All(l, t == ms[3].t, c == ms[3].connType))
	}
}

// Verif_C18_local_lifecycle: a local advertised listener is opened, advertised and closed through the
// real ListenPacketAndAdvertise / Close; while open it is listed with its tags, once closed it is not,
// a withdrawal is flooded to the neighbours, and the periodic advertisement no longer mentions it.
func Verif_C18_local_lifecycle() {
	n := verifNetceptor("A")
	s := n.s
	cb := n.verifConn("B", 1)
	tag := verifapi.String(1)
	pc, err := s.ListenPacketAndAdvertise("svc", map[string]string{"k": tag})
	verifapi.Assert("listen-ok", err == nil)
	verifapi.Quiesce()
	info, ok := s.GetServiceInfo("A", "svc")
	verifapi.Assert("open-service-listed-with-tags", verifapi.All(ok, info.Tags["k"] == tag, info.ConnType == ConnTypeDatagram))
	s.sendServiceAds()
	verifapi.Quiesce()
	nAds, ads := verifAdOutputs(cb)
	verifapi.Assert("open-service-advertised", verifapi.All(nAds == 1, !ads[0].Cancel, ads[0].Service == "svc", ads[0].NodeID == "A", ads[0].Tags["k"] == tag))
	_ = pc.Close()
	verifapi.Quiesce()
	_, ok = s.GetServiceInfo("A", "svc")
	verifapi.Assert("closed-service-unlisted", !ok)
	nW, w := verifAdOutputs(cb)
	verifapi.Cover("withdrawn")
	verifapi.Assert("withdrawal-flooded", verifapi.All(nW == 1, w[0].Cancel, w[0].Service == "svc", w[0].NodeID == "A"))
	verifapi.Assert("withdrawal-newer-than-advertisement", w[0].Time.After(ads[0].Time) || w[0].Time.Equal(ads[0].Time))
	s.sendServiceAds()
	verifapi.Quiesce()
	nAds, _ = verifAdOutputs(cb)
	verifapi.Assert("closed-service-no-longer-advertised", nAds == 0)
	verifapi.Assert("no-lock-left-held", verifapi.HeldLocks() == 0)
}

// Verif_C18_close_during_advertisement_pass: an advertised listener is closed while a periodic
// advertisement pass is under way (two goroutines, every schedule within the pre-emption bound). Whatever
// the owner ends up sending - an advertisement, a withdrawal, or both - an observer that receives those
// messages in the order sent, or in the opposite order, does not list the closed service afterwards.
func Verif_C18_close_during_advertisement_pass() {
	n := verifNetceptor("A")
	s := n.s
	cb := n.verifConn("B", 1)
	pc, err := s.ListenPacketAndAdvertise("svc", map[string]string{"k": "v"})
	verifapi.Assert("listening", err == nil)
	verifapi.Quiesce()
	verifTake(cb)
	verifapi.ExploreSchedules(2 + verifapi.Tier())
	done := make(chan bool, 2)
	go func() { s.sendServiceAds(); done <- true }()
	go func() { _ = pc.Close(); done <- true }()
	<-done
	<-done
	verifapi.ExploreSchedules(0)
	verifapi.Quiesce()
	sent := verifTake(cb)
	verifapi.Cover("both-done")
	// origin clocks tick between two events of one owner (equal timestamps are outside the claim)
	var times []time.Time
	for _, w := range sent {
		sa := &serviceAdvertisementFull{}
		verifapi.Assert("sent-message-decodes", verifapi.FromJSON(w[1:], sa))
		times = append(times, sa.Time)
	}
	for i := 0; i+1 < len(times); i++ {
		verifapi.Assume(!times[i].Equal(times[i+1]))
	}
	for _, reversed := range []bool{false, true} {
		obs := verifNetceptor("O")
		obs.verifConn("X", 1)
		for i := range sent {
			w := sent[i]
			if reversed {
				w = sent[len(sent)-1-i]
			}
			_ = obs.s.handleServiceAdvertisement(w, "X")
		}
		_, listed := obs.s.GetServiceInfo("A", "svc")
		verifapi.Assert("closed-service-not-listed-by-observers", !listed)
	}
	_, own := s.GetServiceInfo("A", "svc")
	verifapi.Assert("closed-service-not-listed-by-owner", !own)
}

// Verif_C18_mesh_converges: three real nodes in a line A - B - C (real runProtocol over in-order
// sessions, real flooding); A owns an advertised service. Histories: the service is opened before or
// after C has joined; the relay B may be replaced by a fresh node under another name's place (B leaves,
// B2 - a node that has never heard of the service - takes over the two links) before the service is
// closed; the service is closed or stays open; advertisement periods pass in between or not. At the end
// (pending requests served, one more advertisement period) every live node lists A's service iff it
// is open, with its tags. Timestamps are assumed strictly increasing.
func Verif_C18_mesh_converges() {
	verifapi.SelectFork(false)
	verifapi.StrictClock()
	verifMeshIDs()
	m := verifNewMesh([]string{"A", "B", "C"})
	owner := m.nodes[0].s
	joinFirst := verifapi.Bool()
	m.connect(0, 1)
	m.settle()
	if joinFirst {
		m.connect(1, 2)
		m.settle()
	}
	pc, err := owner.ListenPacketAndAdvertise("svc", map[string]string{"k": "v"})
	verifapi.Assert("listen-ok", err == nil)
	m.settle()
	if verifapi.Bool() {
		m.adPeriod()
	}
	if !joinFirst {
		m.connect(1, 2) // C joins after the advertisement went round
		m.settle()
	}
	replaced := verifapi.Bool()
	if replaced {
		// the relay is replaced by a fresh node that has not heard any advertisement yet
		m.stop(1)
		m.settle()
		m.restart(1)
		m.connect(1, 0)
		m.settle()
		m.connect(1, 2)
		m.settle()
	}
	if verifapi.Bool() {
		m.adPeriod()
	}
	closed := verifapi.Bool()
	if closed {
		_ = pc.Close()
		m.settle()
	}
	m.adPeriod()
	verifapi.Cover("history-played")
	for i, n := range m.nodes {
		info, ok := n.s.GetServiceInfo("A", "svc")
		verifapi.Assert("service-listed-iff-open:"+m.names[i], ok == !closed)
		if ok {
			verifapi.Assert("listed-with-its-tags", verifapi.All(info.Tags["k"] == "v", info.ConnType == ConnTypeDatagram))
		}
	}
	for i := range m.nodes {
		m.nodes[i].s.cancelFunc()
	}
	verifapi.Quiesce()
	verifapi.Assert("no-lock-left-held", verifapi.HeldLocks() == 0)
}

// Verif_C18_owner_hears_its_own_old_messages: in a mesh with a cycle the owner's own floods come back
// to it over another path. The owner opens an advertised service, (optionally advertises it once more),
// closes it and opens it again with other tags; then a delayed copy of its own OLD advertisement or OLD
// withdrawal arrives from a neighbour. The owner keeps listing the service it has open now, with its
// current tags, and does not relay the old message. Timestamps strictly increasing.
func Verif_C18_owner_hears_its_own_old_messages() {
	verifapi.StrictClock()
	n := verifNetceptor("A")
	s := n.s
	cb := n.verifConn("B", 1)
	n.verifConn("C", 1)
	pc, err := s.ListenPacketAndAdvertise("svc", map[string]string{"k": "old"})
	verifapi.Assert("listen-ok", err == nil)
	verifapi.Quiesce()
	s.sendServiceAds()
	verifapi.Quiesce()
	oldAds := verifTake(cb)
	verifapi.Assert("first-advertisement-flooded", len(oldAds) >= 1)
	_ = pc.Close()
	verifapi.Quiesce()
	oldWithdrawals := verifTake(cb)
	verifapi.Assert("withdrawal-flooded", len(oldWithdrawals) == 1)
	_, err = s.ListenPacketAndAdvertise("svc", map[string]string{"k": "new"})
	verifapi.Assert("reopen-ok", err == nil)
	verifapi.Quiesce()
	verifTake(cb)
	// the echo: the old advertisement or the old withdrawal, as relayed back by neighbour C
	echo := oldWithdrawals[0]
	if verifapi.Bool() {
		echo = oldAds[len(oldAds)-1]
	}
	_ = s.handleServiceAdvertisement(echo, "C")
	verifapi.Quiesce()
	verifapi.Cover("echo-handled")
	info, ok := s.GetServiceInfo("A", "svc")
	verifapi.Assert("owner-still-lists-its-open-service-with-current-tags", verifapi.All(ok, info != nil, info.Tags["k"] == "new"))
	nRelayed, _ := verifAdOutputs(cb)
	verifapi.Assert("old-message-about-an-own-service-not-relayed", nRelayed == 0)
	verifapi.Assert("no-lock-left-held", verifapi.HeldLocks() == 0)
}

// Verif_C18_withdrawal_survives_a_stalled_link: the link to neighbour B is up but its writer is stalled
// (nothing takes messages off the connection for a while - back-pressure), the owner closes its
// advertised listener meanwhile, timers fire, and then the link drains again. The withdrawal - which is
// sent exactly once - is among what B finally receives.
func Verif_C18_withdrawal_survives_a_stalled_link() {
	n := verifNetceptor("A")
	s := n.s
	cb := n.verifConn("B", 1)
	cb.WriteChan = make(chan []byte) // unbuffered and unread: the writer is stalled
	pc, err := s.ListenPacketAndAdvertise("svc", map[string]string{"k": "v"})
	verifapi.Assert("listen-ok", err == nil)
	verifapi.Quiesce()
	_ = pc.Close()
	verifapi.Quiesce()
	for i := 0; i < 4; i++ {
		verifapi.AdvanceTime(10 * time.Second)
		verifapi.Quiesce()
	}
	// the link drains
	sawWithdrawal := false
	for i := 0; i < 6; i++ {
		select {
		case m := <-cb.WriteChan:
			if len(m) > 0 && m[0] == MsgTypeServiceAdvertisement {
				sa := &serviceAdvertisementFull{}
				if verifapi.FromJSON(m[1:], sa) && sa.Cancel && sa.ServiceAdvertisement != nil && sa.Service == "svc" {
					sawWithdrawal = true
				}
			}
		default:
		}
		verifapi.Quiesce()
	}
	verifapi.Cover("link-drained")
	verifapi.Assert("withdrawal-delivered-once-the-link-drains", sawWithdrawal)
	s.cancelFunc()
	verifapi.Quiesce()
}
