package netceptor

import (
	"context"
	"fmt"
	"time"

	"github.com/ansible/receptor/internal/verifapi"
)

// C10 - hop limit bounds forwarding; expiry is reported.

// verifArbitraryTables gives node n an arbitrary (possibly inconsistent) routing table over the
// destinations in dests with next hops drawn from hops (connections B and C exist, X does not).
func verifArbitraryTables(n *verifNode, dests []string) (cb, cc *connInfo) {
	cb = n.verifConn("B", 1)
	cc = n.verifConn("C", 1)
	n.s.AddNameHash("X")
	for _, d := range dests {
		n.s.AddNameHash(d)
		switch verifapi.Choose(4) {
		case 0: // no route
		case 1:
			n.s.routingTable[d] = "B"
		case 2:
			n.s.routingTable[d] = "C"
		case 3:
			n.s.routingTable[d] = "X" // route via a neighbour we are not connected to
		}
	}
	return cb, cc
}

// Verif_C10_forward_step: the step lemma. For EVERY budget 0..255, every message and every routing /
// connection table: at most one relay; a relay happens only with budget > 0 and carries budget-1
// with every other byte of the encoding unchanged; with budget 0 nothing of the original is relayed.
func Verif_C10_forward_step() {
	n := verifNetceptor("A")
	s := n.s
	to := verifName1()
	from := verifName1()
	verifapi.Assume(to != "A")
	cb, cc := verifArbitraryTables(n, []string{to, from})
	var md *MessageData
	if verifapi.Tier() == 1 {
		md = &MessageData{FromNode: from, ToNode: to, FromService: verifService(), ToService: verifService(),
			HopsToLive: verifapi.Byte(), Data: verifapi.BytesUpTo(2)}
	} else {
		md = &MessageData{FromNode: from, ToNode: to, FromService: verifapi.String(8), ToService: verifName1(),
			HopsToLive: verifapi.Byte(), Data: verifapi.BytesUpTo(1)}
	}
	verifapi.Assume(md.FromService != "unreach")
	ref, _ := s.translateDataFromMessage(md)
	hops := md.HopsToLive
	_ = s.handleMessageData(md)
	verifapi.Quiesce()
	out := append(verifTake(cb), verifTake(cc)...)
	relays := 0
	for _, w := range out {
		m, err := s.translateDataToMessage(w)
		verifapi.Assert("output-decodes", err == nil)
		if m.FromService == "unreach" {
			continue // expiry notice, checked in Verif_C10_expire_notice
		}
		relays++
		verifapi.Cover("relayed")
		verifapi.Assert("relay-needs-budget", hops > 0)
		verifapi.Assert("budget-decremented-by-one", w[1] == hops-1)
		w2 := append([]byte{}, w...)
		w2[1] = ref[1]
		verifapi.Assert("everything-else-unchanged", verifapi.SameBytes(w2, ref))
	}
	verifapi.Assert("at-most-one-relay", relays <= 1)
	if hops == 0 {
		verifapi.Cover("expired")
		verifapi.Assert("expired-not-relayed", relays == 0)
	}
}

// Verif_C10_expire_notice: budget 0 at a transit node => exactly one notice towards the original
// source, service unreach->unreach, naming the original four address fields and "message expired";
// unless the packet is itself an unreach packet (then nothing at all).
func Verif_C10_expire_notice() {
	n := verifNetceptor("A")
	s := n.s
	to := verifName1()
	from := verifName1()
	verifapi.Assume(verifapi.All(to != "A", from != "A"))
	cb := n.verifConn("B", 1)
	s.AddNameHash(to)
	s.AddNameHash(from)
	s.routingTable[from] = "B"
	s.routingTable[to] = "B"
	isUnreach := verifapi.Bool()
	fs := verifService()
	if isUnreach {
		fs = "unreach"
	} else {
		verifapi.Assume(fs != "unreach")
	}
	md := &MessageData{FromNode: from, ToNode: to, FromService: fs, ToService: verifService(), HopsToLive: 0, Data: verifapi.BytesUpTo(1)}
	_ = s.handleMessageData(md)
	verifapi.Quiesce()
	out := verifTake(cb)
	if isUnreach {
		verifapi.Cover("unreach-expired-silently")
		verifapi.Assert("no-notice-about-a-notice", len(out) == 0)
		return
	}
	verifapi.Cover("notice-sent")
	verifapi.Assert("exactly-one-notice", len(out) == 1)
	m, err := s.translateDataToMessage(out[0])
	verifapi.Assert("notice-decodes", err == nil)
	verifapi.Assert("notice-addressed-to-source", verifapi.All(m.ToNode == from, m.ToService == "unreach", m.FromService == "unreach", m.FromNode == "A"))
	var um UnreachableMessage
	verifapi.Assert("notice-body-decodes", verifapi.FromJSON(m.Data, &um))
	verifapi.Assert("notice-names-original", verifapi.All(um.FromNode == from, um.ToNode == to, um.FromService == fs,
		um.ToService == md.ToService, um.Problem == ProblemExpiredInTransit))
}

// Verif_C10_local_delivery_free: delivery at the destination consumes no budget (budget 0 still delivers).
func Verif_C10_local_delivery_free() {
	n := verifNetceptor("A")
	l := n.verifListener("svc")
	md := &MessageData{FromNode: verifName1(), ToNode: "A", FromService: verifService(), ToService: "svc", HopsToLive: verifapi.Byte(), Data: nil}
	_ = n.s.handleMessageData(md)
	verifapi.Quiesce()
	verifapi.Cover("delivered")
	verifapi.Assert("delivered-whatever-the-budget", len(*l.got) == 1)
	verifapi.Assert("budget-untouched", (*l.got)[0].HopsToLive == md.HopsToLive)
}

// Verif_C10_loop_bound: two nodes whose tables point at each other for destination Z (a phantom
// route). A packet with budget h <= 3 injected at A is relayed at most h times in total, then an
// expiry notice goes back to the source; the notice itself cannot loop forever either.
func Verif_C10_loop_bound() {
	a, b := verifNetceptor("A"), verifNetceptor("B")
	a.s.maxForwardingHops, b.s.maxForwardingHops = 2, 2
	ab := a.verifConn("B", 1)
	ba := b.verifConn("A", 1)
	for _, x := range []*verifNode{a, b} {
		x.s.AddNameHash("A")
		x.s.AddNameHash("B")
		x.s.AddNameHash("Z")
		x.s.AddNameHash("S")
	}
	a.s.routingTable["Z"], b.s.routingTable["Z"] = "B", "A"
	a.s.routingTable["S"], b.s.routingTable["S"] = "B", "A" // the source is unreachable too (worst case)
	h := verifapi.Byte()
	verifapi.Assume(h <= 3)
	md := &MessageData{FromNode: "S", ToNode: "Z", FromService: "x", ToService: "y", HopsToLive: h, Data: []byte{1}}
	_ = a.s.handleMessageData(md)
	relaysOrig, relaysAll := 0, 0
	for round := 0; round < 16; round++ {
		fa, fb := verifTake(ab), verifTake(ba)
		if len(fa)+len(fb) == 0 {
			break
		}
		for _, w := range fa {
			m, err := b.s.translateDataToMessage(w)
			verifapi.Assert("decodes", err == nil)
			relaysAll++
			if m.FromService != "unreach" {
				relaysOrig++
			}
			_ = b.s.handleMessageData(m)
		}
		for _, w := range fb {
			m, err := a.s.translateDataToMessage(w)
			verifapi.Assert("decodes", err == nil)
			relaysAll++
			if m.FromService != "unreach" {
				relaysOrig++
			}
			_ = a.s.handleMessageData(m)
		}
		verifapi.Assert("loop-terminates", round < 15)
	}
	verifapi.Cover("quiescent")
	verifapi.Assert("original-relayed-at-most-h-times", relaysOrig <= int(h))
	verifapi.Assert("total-traffic-bounded", relaysAll <= int(h)+2)
}

// ---- traceroute ----

type verifTraceNode struct {
	ctx     context.Context
	script  []error
	froms   []string
	budgets *[]byte
}

func (v *verifTraceNode) MaxForwardingHops() byte { return 3 }
func (v *verifTraceNode) Context() context.Context { return v.ctx }
func (v *verifTraceNode) Ping(ctx context.Context, target string, hopsToLive byte) (time.Duration, string, error) {
	*v.budgets = append(*v.budgets, hopsToLive)
	i := int(hopsToLive)
	return 0, v.froms[i], v.script[i]
}

// Verif_C10_traceroute_loop: traceroute issues budgets 0,1,2,... in order, reports the node where each
// probe expired, and stops at the first reply or at the first error other than expiry.
func Verif_C10_traceroute_loop() {
	ctx, cancel := context.WithCancel(context.Background())
	defer cancel()
	v := &verifTraceNode{ctx: ctx, budgets: &[]byte{}}
	stopAt := 99
	for i := 0; i <= 3; i++ {
		v.froms = append(v.froms, fmt.Sprintf("n%d", i))
		switch verifapi.Choose(3) {
		case 0:
			v.script = append(v.script, fmt.Errorf(ProblemExpiredInTransit))
		case 1:
			v.script = append(v.script, nil)
			if stopAt == 99 {
				stopAt = i
			}
		case 2:
			v.script = append(v.script, fmt.Errorf("timeout"))
			if stopAt == 99 {
				stopAt = i
			}
		}
	}
	var res []*TracerouteResult
	for r := range CreateTraceroute(ctx, v, "T") {
		res = append(res, r)
	}
	want := stopAt + 1
	if stopAt == 99 {
		want = 4
	}
	verifapi.Cover("finished")
	verifapi.Assert("number-of-probes", verifapi.All(len(res) == want, len(*v.budgets) == want))
	for i := range res {
		verifapi.Assert("budgets-in-order", (*v.budgets)[i] == byte(i))
		verifapi.Assert("reports-expiry-node", res[i].From == v.froms[i])
		isLast := i == want-1 && stopAt != 99
		if isLast && v.script[i] != nil {
			verifapi.Assert("error-reported", res[i].Err != nil)
		} else {
			verifapi.Assert("expiry-is-not-an-error", res[i].Err == nil)
		}
	}
}

// Verif_C10_two_packets: two packets with different budgets pass through the same transit node one
// after the other: each is relayed with ITS OWN budget minus one (or expires on its own budget) -
// nothing about the first packet's budget sticks to the second.
func Verif_C10_two_packets() {
	n := verifNetceptor("A")
	s := n.s
	cb := n.verifConn("B", 1)
	for _, d := range []string{"S", "T", "U"} {
		s.AddNameHash(d)
		s.routingTable[d] = "B"
	}
	h1, h2 := verifapi.Byte(), verifapi.Byte()
	to2 := []string{"T", "U"}[verifapi.Choose(2)]
	_ = s.handleMessageData(&MessageData{FromNode: "S", ToNode: "T", FromService: "x", ToService: "y", HopsToLive: h1, Data: []byte{1}})
	verifapi.Quiesce()
	first := verifTake(cb)
	_ = s.handleMessageData(&MessageData{FromNode: "S", ToNode: to2, FromService: "x", ToService: "y", HopsToLive: h2, Data: []byte{2}})
	verifapi.Quiesce()
	second := verifTake(cb)
	verifapi.Cover("two-packets")
	check := func(out [][]byte, h byte, to string, payload byte) {
		verifapi.Assert("exactly-one-output-per-packet", len(out) == 1)
		m, err := s.translateDataToMessage(out[0])
		verifapi.Assert("output-decodes", err == nil)
		if h == 0 {
			verifapi.Assert("expired-packet-yields-notice-only", verifapi.All(m.FromService == "unreach", m.ToNode == "S"))
		} else {
			verifapi.Assert("relayed-with-own-budget-minus-one", verifapi.All(m.FromService == "x", m.ToNode == to, m.HopsToLive == h-1, len(m.Data) == 1, m.Data[0] == payload))
		}
	}
	check(first, h1, "T", 1)
	check(second, h2, to2, 2)
}

// Verif_C10_send_side: the sending side for ANY budget 0..255: a datagram addressed to a service on
// the sending node itself (by its ID or as "localhost" in any letter case) needs no forwarding and is
// delivered whatever its budget - budget 0 included; one addressed to another node leaves with exactly
// the budget given minus nothing (the first relay decrements), or is reported expired when the budget is 0.
func Verif_C10_send_side() {
	n := verifNetceptor("A")
	s := n.s
	cb := n.verifConn("B", 1)
	s.routingTable["B"] = "B"
	sk := n.verifListener("svc")
	h := verifapi.Byte()
	to := []string{"A", "localhost", "LocalHost", "B"}[verifapi.Choose(4)]
	err := s.SendMessageWithHopsToLive("src", to, "svc", []byte{7}, h)
	verifapi.Quiesce()
	out := verifTake(cb)
	verifapi.Cover("sent")
	if to != "B" {
		verifapi.Assert("local-destination-delivered-whatever-the-budget", verifapi.All(err == nil, len(*sk.got) == 1, len(out) == 0))
		if len(*sk.got) == 1 {
			verifapi.Assert("local-delivery-names-the-sender", verifapi.All((*sk.got)[0].FromNode == "A", (*sk.got)[0].FromService == "src"))
		}
	} else {
		verifapi.Assert("remote-destination-not-delivered-locally", len(*sk.got) == 0)
	}
	verifapi.Assert("no-lock-left-held", verifapi.HeldLocks() == 0)
}

// Verif_C10_every_expiry_is_reported: one socket sends two datagrams that run out of budget at the same
// relay on the way to the same destination; both "message expired" notices come back (identical but for
// nothing). The socket's subscription is told about BOTH: each expired datagram is reported.
func Verif_C10_every_expiry_is_reported() {
	n := verifNetceptor("A")
	s := n.s
	pc, err := s.ListenPacket("s1")
	verifapi.Assert("listen-ok", err == nil)
	sub := pc.SubscribeUnreachable(make(chan struct{}))
	verifapi.Quiesce()
	got := 0
	for i := 0; i < 2; i++ {
		um := &UnreachableMessage{FromNode: "A", FromService: "s1", ToNode: "R", ToService: "svc", Problem: ProblemExpiredInTransit}
		md := &MessageData{FromNode: "B", ToNode: "A", FromService: "unreach", ToService: "unreach", HopsToLive: 5, Data: verifapi.JSON(um)}
		_ = s.handleMessageData(md)
		verifapi.Quiesce()
		select {
		case m := <-sub:
			got++
			verifapi.Assert("notice-names-the-expired-packet", verifapi.All(m.Problem == ProblemExpiredInTransit, m.ToNode == "R", m.ReceivedFromNode == "B"))
		default:
		}
	}
	verifapi.Cover("two-expiries")
	verifapi.Assert("every-expired-datagram-is-reported-to-its-sender", got == 2)
	_ = pc.Close()
	verifapi.Quiesce()
}

// Verif_C10_packets_follow_the_routing_table: a relay that has a direct session with the destination
// but whose routing table says the least-cost way there is through another neighbour (the direct link
// is the expensive one): the packet goes where the TABLE says - hop accounting, expiry reports and
// traceroute all describe the routed path, so forwarding must follow it.
func Verif_C10_packets_follow_the_routing_table() {
	n := verifNetceptor("A")
	s := n.s
	cb := n.verifConn("B", 10) // direct but expensive
	cc := n.verifConn("C", 1)
	s.routingTable["B"] = "C" // least-cost path A-C-B
	s.routingTable["C"] = "C"
	h := verifapi.Byte()
	verifapi.Assume(h > 0)
	_ = s.handleMessageData(&MessageData{FromNode: "S", ToNode: "B", FromService: "x", ToService: "svc", HopsToLive: h, Data: []byte{1}})
	verifapi.Quiesce()
	toB, toC := verifTake(cb), verifTake(cc)
	verifapi.Cover("forwarded")
	verifapi.Assert("packet-takes-the-routed-next-hop", verifapi.All(len(toC) == 1, len(toB) == 0))
	if len(toC) == 1 {
		verifapi.Assert("budget-decremented-by-one", toC[0][1] == h-1)
	}
}
