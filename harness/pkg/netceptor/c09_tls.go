package netceptor

import (
	"context"
	"crypto/tls"
	"crypto/x509"
	"crypto/x509/pkix"
	"fmt"
	"net"
	"os"
	"strings"
	"time"

	"github.com/ansible/receptor/internal/verifapi"
	"github.com/ansible/receptor/pkg/logger"
	"github.com/quic-go/quic-go"
)

// C09 - TLS peers need a trusted chain, a matching pin and the expected node ID.
//
// crypto/x509, crypto/tls and the hash functions cannot be executed symbolically. Under the engine they
// are replaced by verdict models: a raw certificate parses or not, chain verification succeeds or not,
// digests are fixed arrays, the receptor names of the leaf are a harness-chosen list or a decode error.
// What is decided is that receptor's verifier asks the library the right question (captured options)
// and combines the verdicts correctly.

type verifCertSpec struct {
	parses bool
	cert   *x509.Certificate
}

type verifTLSModel struct {
	certs     []verifCertSpec
	verifyErr bool
	names     []string
	namesErr  bool
	otherNames []string // receptor names carried by presented certificates other than the leaf
	// captured
	verifyCalls int
	verified    *x509.Certificate
	opts        x509.VerifyOptions
	pools       map[*x509.CertPool][]*x509.Certificate
}

var (
	verifD224 = [28]byte{1}
	verifD256 = [32]byte{2}
	verifD384 = [48]byte{3}
	verifD512 = [64]byte{4}
)

func verifInstallTLSModel(m *verifTLSModel) {
	m.pools = map[*x509.CertPool][]*x509.Certificate{}
	verifapi.Redirect("crypto/x509.ParseCertificate", func(der []byte) (*x509.Certificate, error) {
		i := int(der[0])
		if i >= len(m.certs) || !m.certs[i].parses {
			return nil, fmt.Errorf("x509: malformed certificate")
		}
		return m.certs[i].cert, nil
	})
	verifapi.Redirect("(*crypto/x509.Certificate).Verify", func(c *x509.Certificate, opts x509.VerifyOptions) ([][]*x509.Certificate, error) {
		m.verifyCalls++
		m.verified, m.opts = c, opts
		if m.verifyErr {
			return nil, fmt.Errorf("x509: certificate signed by unknown authority / expired / unsuitable usage")
		}
		return [][]*x509.Certificate{{c}}, nil
	})
	verifapi.Redirect("crypto/x509.NewCertPool", func() *x509.CertPool { return new(x509.CertPool) })
	verifapi.Redirect("(*crypto/x509.CertPool).AddCert", func(p *x509.CertPool, c *x509.Certificate) { m.pools[p] = append(m.pools[p], c) })
	// digests are a function of the certificate: byte 1 of the digest is the certificate's index byte
	verifapi.Redirect("crypto/sha256.Sum224", func(data []byte) [28]byte { d := verifD224; d[1] = data[0]; return d })
	verifapi.Redirect("crypto/sha256.Sum256", func(data []byte) [32]byte { d := verifD256; d[1] = data[0]; return d })
	verifapi.Redirect("crypto/sha512.Sum384", func(data []byte) [48]byte { d := verifD384; d[1] = data[0]; return d })
	verifapi.Redirect("crypto/sha512.Sum512", func(data []byte) [64]byte { d := verifD512; d[1] = data[0]; return d })
	verifapi.Redirect("github.com/ansible/receptor/pkg/utils.ReceptorNames", func(exts []pkix.Extension) ([]string, error) {
		// certificates built by verifAnyPresentation carry their index in a marker extension; index 0 is the leaf
		if len(exts) == 1 && len(exts[0].Value) == 1 && exts[0].Value[0] != 0 {
			return m.otherNames, nil
		}
		if m.namesErr {
			return nil, fmt.Errorf("asn1: structure error")
		}
		return m.names, nil
	})
	verifapi.Redirect("(*crypto/tls.Config).Clone", func(c *tls.Config) *tls.Config {
		if c == nil {
			return nil
		}
		return &tls.Config{Certificates: c.Certificates, RootCAs: c.RootCAs, ClientCAs: c.ClientCAs, ClientAuth: c.ClientAuth,
			InsecureSkipVerify: c.InsecureSkipVerify, ServerName: c.ServerName, VerifyPeerCertificate: c.VerifyPeerCertificate,
			GetConfigForClient: c.GetConfigForClient, NextProtos: c.NextProtos, MinVersion: c.MinVersion}
	})
}

// verifAnyPresentation chooses how many raw certificates the peer presents and which of them parse.
func verifAnyPresentation(m *verifTLSModel) [][]byte {
	n := verifapi.Choose(3)
	var raw [][]byte
	for i := 0; i < n; i++ {
		c := &x509.Certificate{Raw: []byte{byte(i), 0xAA}, Extensions: []pkix.Extension{{Value: []byte{byte(i)}}}}
		if i == 0 {
			c.IsCA = verifapi.Bool() // what the peer proves to own is the FIRST certificate, whatever kind it is
		}
		m.certs = append(m.certs, verifCertSpec{parses: verifapi.Bool(), cert: c})
		raw = append(raw, []byte{byte(i), 0xAA})
	}
	return raw
}

// Verif_C09_verify_decision: the verifier built by ReceptorVerifyFunc against every combination of:
// 0..2 presented certificates (each parsing or not), 0..2 pinned fingerprints (of any of the four digest
// lengths or an illegal length, equal to the leaf's digest or not), chain verification verdict, the
// leaf's receptor names (decode error, none, the expected one, another, several), DNS or receptor name
// mode, client or server role. It accepts iff every single condition holds, and the options handed to
// chain verification are the right ones for the role.
func Verif_C09_verify_decision() {
	m := &verifTLSModel{}
	verifInstallTLSModel(m)
	raw := verifAnyPresentation(m)
	m.verifyErr = verifapi.Bool()
	switch verifapi.Choose(7) {
	case 5: // the expected name in another letter case is another node
		m.names = []string{"EX"}
	case 6:
		m.names = []string{"ot", "Ex"}
	case 0:
		m.namesErr = true
	case 1:
		m.names = nil
	case 2:
		m.names = []string{"ex"}
	case 3:
		m.names = []string{"ot"}
	case 4:
		m.names = []string{"ot", "ex", "e"}
	}
	// a second presented certificate (somebody else's, sent along with the leaf) may name the expected node: irrelevant
	if verifapi.Bool() {
		m.otherNames = []string{"ex"}
	}
	// pins
	nPins := verifapi.Choose(3)
	var pins [][]byte
	anyIllegal, anyMatch := false, false
	for i := 0; i < nPins; i++ {
		length := []int{28, 32, 48, 64, 5, 0, 33}[verifapi.Choose(7)]
		p := verifapi.Bytes(length)
		pins = append(pins, p)
		switch length {
		case 28:
			anyMatch = verifapi.Any(anyMatch, verifapi.SameBytes(p, verifD224[:]))
		case 32:
			anyMatch = verifapi.Any(anyMatch, verifapi.SameBytes(p, verifD256[:]))
		case 48:
			anyMatch = verifapi.Any(anyMatch, verifapi.SameBytes(p, verifD384[:]))
		case 64:
			anyMatch = verifapi.Any(anyMatch, verifapi.SameBytes(p, verifD512[:]))
		default:
			anyIllegal = true
		}
	}
	roots, clientCAs := new(x509.CertPool), new(x509.CertPool)
	tlscfg := &tls.Config{RootCAs: roots, ClientCAs: clientCAs, ServerName: "sn"}
	mode := []ExpectedHostnameType{ExpectedHostnameTypeDNS, ExpectedHostnameTypeReceptor}[verifapi.Choose(2)]
	role := []VerifyType{VerifyServer, VerifyClient, VerifyType(3)}[verifapi.Choose(3)]
	expected := []string{"ex", ""}[verifapi.Choose(2)]
	fn := ReceptorVerifyFunc(tlscfg, pins, expected, mode, role, logger.NewReceptorLogger(""))
	err := fn(raw, nil)
	verifapi.Cover("verdict")

	allParse := true
	for i := range raw {
		allParse = allParse && m.certs[i].parses
	}
	pinsOK := nPins == 0 || (!anyIllegal && anyMatch)
	nameOK := true
	if mode == ExpectedHostnameTypeReceptor {
		nameOK = false
		if !m.namesErr {
			for _, nm := range m.names {
				if nm == expected {
					nameOK = true
				}
			}
		}
	}
	want := len(raw) >= 1 && allParse && (role == VerifyServer || role == VerifyClient) && pinsOK && !m.verifyErr && nameOK
	if want {
		verifapi.Cover("accepted")
		verifapi.Assert("peer-meeting-every-condition-accepted", err == nil)
	} else {
		verifapi.Cover("refused")
		verifapi.Assert("peer-failing-any-condition-refused", err != nil)
	}
	if err == nil {
		// the question asked of the chain verifier
		verifapi.Assert("chain-verified-exactly-once", m.verifyCalls == 1)
		verifapi.Assert("leaf-is-what-gets-verified", m.verified == m.certs[0].cert)
		if role == VerifyServer {
			verifapi.Assert("server-cert-verified-against-root-cas", m.opts.Roots == roots)
			verifapi.Assert("server-cert-needs-server-usage", len(m.opts.KeyUsages) == 1 && m.opts.KeyUsages[0] == x509.ExtKeyUsageServerAuth)
		} else {
			verifapi.Assert("client-cert-verified-against-client-cas", m.opts.Roots == clientCAs)
			verifapi.Assert("client-cert-needs-client-usage", len(m.opts.KeyUsages) == 1 && m.opts.KeyUsages[0] == x509.ExtKeyUsageClientAuth)
		}
		inter := m.pools[m.opts.Intermediates]
		verifapi.Assert("rest-of-presented-chain-are-intermediates", len(inter) == len(raw)-1)
		for i := range inter {
			verifapi.Assert("intermediates-in-order", inter[i] == m.certs[i+1].cert)
		}
		if mode == ExpectedHostnameTypeDNS && expected != "" {
			verifapi.Assert("dns-name-checked-by-chain-verifier", m.opts.DNSName == expected)
		} else {
			verifapi.Assert("no-dns-name-in-receptor-mode", m.opts.DNSName == "")
		}
		verifapi.Assert("verified-at-current-time", !m.opts.CurrentTime.IsZero())
	}
}

// Verif_C09_client_config: GetClientTLSConfig for a stored profile: unless the profile says "accept any
// server certificate", the returned config carries receptor's verifier; Go's built-in verification is
// switched off only together with that verifier and only in receptor-name mode; the verifier demands
// the configured pins and the expected name.
func Verif_C09_client_config() {
	m := &verifTLSModel{}
	verifInstallTLSModel(m)
	n := verifNetceptor("A")
	s := n.s
	s.clientTLSConfigs = map[string]*tls.Config{}
	s.clientPinnedFingerprints = map[string][][]byte{}
	insecure := verifapi.Bool()
	hasPin := verifapi.Bool()
	var pins [][]byte
	if hasPin {
		pins = [][]byte{verifapi.Bytes(32)}
	}
	roots := new(x509.CertPool)
	verifapi.Assert("profile-stored", s.SetClientTLSConfig("prof", &tls.Config{RootCAs: roots, InsecureSkipVerify: insecure}, pins) == nil)
	mode := []ExpectedHostnameType{ExpectedHostnameTypeDNS, ExpectedHostnameTypeReceptor}[verifapi.Choose(2)]
	// the profile may have been looked up before (another peer, either mode): each lookup stands alone
	if verifapi.Bool() {
		earlier := []ExpectedHostnameType{ExpectedHostnameTypeDNS, ExpectedHostnameTypeReceptor}[verifapi.Choose(2)]
		_, eerr := s.GetClientTLSConfig("prof", "testhost", earlier)
		verifapi.Assert("earlier-lookup-ok", eerr == nil)
		verifapi.Cover("profile-looked-up-before")
	}
	cfg, err := s.GetClientTLSConfig("prof", "ex", mode)
	verifapi.Assert("profile-found", err == nil && cfg != nil)
	_, err2 := s.GetClientTLSConfig("nosuch", "ex", mode)
	verifapi.Assert("unknown-profile-refused", err2 != nil)
	verifapi.Cover("config-built")
	if insecure {
		verifapi.Assert("explicitly-insecure-profile-left-alone", cfg.InsecureSkipVerify)
		return
	}
	verifapi.Assert("verifier-installed", cfg.VerifyPeerCertificate != nil)
	if mode == ExpectedHostnameTypeDNS {
		verifapi.Assert("dns-mode-keeps-builtin-verification", !cfg.InsecureSkipVerify && cfg.ServerName == "ex")
	} else {
		verifapi.Assert("builtin-verification-off-only-with-verifier", cfg.InsecureSkipVerify && cfg.VerifyPeerCertificate != nil)
	}
	// the installed verifier refuses a chain-valid certificate that misses the pin or the name
	m.certs = []verifCertSpec{{parses: true, cert: &x509.Certificate{Raw: []byte{0, 0xAA}}}}
	pinMatches := hasPin && verifapi.SameBytes(pins[0], verifD256[:])
	m.names = []string{[]string{"ex", "ot"}[verifapi.Choose(2)]}
	verr := cfg.VerifyPeerCertificate([][]byte{{0, 0xAA}}, nil)
	ok := (!hasPin || pinMatches) && (mode == ExpectedHostnameTypeDNS || m.names[0] == "ex")
	verifapi.Assert("installed-verifier-enforces-pin-and-name", (verr == nil) == ok)
	verifapi.Assert("installed-verifier-uses-the-profile-roots", verr != nil || m.opts.Roots == roots)
}

// ---- the mutually authenticated stream listener ----

type verifHelloConn struct{ addr net.Addr }

func (c verifHelloConn) Read(b []byte) (int, error)         { return 0, fmt.Errorf("closed") }
func (c verifHelloConn) Write(b []byte) (int, error)        { return len(b), nil }
func (c verifHelloConn) Close() error                       { return nil }
func (c verifHelloConn) LocalAddr() net.Addr                { return c.addr }
func (c verifHelloConn) RemoteAddr() net.Addr               { return c.addr }
func (c verifHelloConn) SetDeadline(t time.Time) error      { return nil }
func (c verifHelloConn) SetReadDeadline(t time.Time) error  { return nil }
func (c verifHelloConn) SetWriteDeadline(t time.Time) error { return nil }

// Verif_C09_listener_peer_identity: a mutually authenticated stream listener built by the real listen()
// (QUIC transport replaced by a stub that captures the TLS configuration). For a client whose packets
// claim to come from node N and who presents a chain-valid certificate naming node C, the per-client
// verifier accepts iff C == N, for every N (including IDs containing ':'); and pinned client
// fingerprints configured on the server profile are still enforced.
func Verif_C09_listener_peer_identity() {
	m := &verifTLSModel{}
	verifInstallTLSModel(m)
	n := verifNetceptor("A")
	var captured *tls.Config
	verifapi.Redirect("(*github.com/quic-go/quic-go.Transport).Listen", func(t *quic.Transport, tlsConf *tls.Config, conf *quic.Config) (*quic.Listener, error) {
		captured = tlsConf
		return new(quic.Listener), nil
	})
	verifapi.Redirect("(*github.com/quic-go/quic-go.Listener).Accept", func(l *quic.Listener, ctx context.Context) (quic.Connection, error) {
		<-ctx.Done()
		return nil, ctx.Err()
	})
	verifapi.Redirect("(*github.com/quic-go/quic-go.Listener).Close", func(l *quic.Listener) error { return nil })
	cas := new(x509.CertPool)
	hasPin := verifapi.Bool()
	var pins [][]byte
	if hasPin {
		pins = [][]byte{verifapi.Bytes(32)}
	}
	lg := logger.NewReceptorLogger("")
	profile := &tls.Config{ClientAuth: tls.RequireAndVerifyClientCert, ClientCAs: cas}
	// what PrepareTLSServerConfig installs for a profile that requires client certificates
	profile.VerifyPeerCertificate = ReceptorVerifyFunc(profile, pins, "", ExpectedHostnameTypeDNS, VerifyClient, lg)
	ctx, cancel := context.WithCancel(context.Background())
	li, err := n.s.listen(ctx, "svc", profile, false, nil)
	verifapi.Assert("listener-created", err == nil && li != nil && captured != nil)
	verifapi.Assert("per-client-configuration-installed", captured.GetConfigForClient != nil)
	claimed := []string{"N", "NN", "N:x", "C:N", ":", "N:"}[verifapi.Choose(6)]
	certName := []string{"N", "NN", "N:x", "C", "", "C:N", ":", "N:"}[verifapi.Choose(8)]
	hi := &tls.ClientHelloInfo{Conn: verifHelloConn{addr: Addr{network: "netceptor-A", node: claimed, service: "svc9"}}}
	cc, err := captured.GetConfigForClient(hi)
	verifapi.Assert("per-client-configuration-built", err == nil && cc != nil && cc.VerifyPeerCertificate != nil)
	m.certs = []verifCertSpec{{parses: true, cert: &x509.Certificate{Raw: []byte{0, 0xAA}}}}
	m.names = []string{certName}
	pinMatches := hasPin && verifapi.SameBytes(pins[0], verifD256[:])
	verr := cc.VerifyPeerCertificate([][]byte{{0, 0xAA}}, nil)
	verifapi.Cover("client-verified")
	verifapi.Known("node-id-containing-colon", verifapi.Any(claimed == "N:x", claimed == "C:N", claimed == ":", claimed == "N:"))
	verifapi.Known("pinned-client-fingerprints-dropped-by-listener", hasPin && !pinMatches)
	verifapi.Assert("client-accepted-iff-certificate-names-the-claimed-node-and-pin-matches",
		(verr == nil) == (certName == claimed && (!hasPin || pinMatches)))
	if verr == nil {
		verifapi.Assert("client-chain-verified-against-client-cas", m.opts.Roots == cas)
	}
	cancel()
	_ = li.Close()
	verifapi.Quiesce()
}

// Verif_C09_verifier_reuse: ONE verifier instance (as a listener or a redialling client keeps it)
// checks two different peers one after the other, both with chain-valid, correctly named certificates
// whose digests differ; the pin is arbitrary. Each verdict depends only on that peer's own certificate:
// accepted iff the pin equals ITS digest, in either order.
func Verif_C09_verifier_reuse() {
	m := &verifTLSModel{}
	verifInstallTLSModel(m)
	m.certs = []verifCertSpec{
		{parses: true, cert: &x509.Certificate{Raw: []byte{0, 0xAA}}},
		{parses: true, cert: &x509.Certificate{Raw: []byte{1, 0xBB}}},
	}
	m.names = []string{"ex"}
	pin := verifapi.Bytes(32)
	d0, d1 := verifD256, verifD256
	d0[1], d1[1] = 0, 1
	role := []VerifyType{VerifyServer, VerifyClient}[verifapi.Choose(2)]
	fn := ReceptorVerifyFunc(&tls.Config{RootCAs: new(x509.CertPool), ClientCAs: new(x509.CertPool)}, [][]byte{pin}, "ex", ExpectedHostnameTypeReceptor, role, logger.NewReceptorLogger(""))
	first := verifapi.Choose(2)
	order := []int{first, 1 - first, first}
	for _, i := range order {
		err := fn([][]byte{{byte(i), 0}}, nil)
		want := verifapi.SameBytes(pin, d0[:])
		if i == 1 {
			want = verifapi.SameBytes(pin, d1[:])
		}
		verifapi.Assert("verdict-depends-only-on-the-presented-certificate", (err == nil) == want)
	}
	verifapi.Cover("three-handshakes")
}

// Verif_C09_profile_to_listener: the whole configuration path of a mutually authenticated stream
// listener: the real PrepareTLSServerConfig turns a tls-server profile (client certificates required
// or not, client CA bundle, optional pinned fingerprint) into a tls.Config, the real listen() turns
// that into the listener's configuration. Whenever the profile requires client certificates, a client
// whose packets claim to come from node N and who presents a chain-valid certificate naming node C is
// accepted iff C == N and its fingerprint is the pinned one (if any).
func Verif_C09_profile_to_listener() {
	m := &verifTLSModel{}
	verifInstallTLSModel(m)
	verifapi.Redirect("crypto/tls.X509KeyPair", func(certPEMBlock, keyPEMBlock []byte) (tls.Certificate, error) {
		return tls.Certificate{}, nil
	})
	verifapi.Redirect("(*crypto/x509.CertPool).AppendCertsFromPEM", func(p *x509.CertPool, pem []byte) bool { return true })
	dir := verifapi.TempDir()
	verifapi.Assert("files", verifapi.All(os.WriteFile(dir+"/cert", []byte("c"), 0o600) == nil,
		os.WriteFile(dir+"/key", []byte("k"), 0o600) == nil, os.WriteFile(dir+"/ca", []byte("a"), 0o600) == nil))
	n := verifNetceptor("A")
	var captured *tls.Config
	verifapi.Redirect("(*github.com/quic-go/quic-go.Transport).Listen", func(t *quic.Transport, tlsConf *tls.Config, conf *quic.Config) (*quic.Listener, error) {
		captured = tlsConf
		return new(quic.Listener), nil
	})
	verifapi.Redirect("(*github.com/quic-go/quic-go.Listener).Accept", func(l *quic.Listener, ctx context.Context) (quic.Connection, error) {
		<-ctx.Done()
		return nil, ctx.Err()
	})
	verifapi.Redirect("(*github.com/quic-go/quic-go.Listener).Close", func(l *quic.Listener) error { return nil })
	pinned := verifapi.Bool()
	// the pinned fingerprint is either the presented certificate's sha256 digest (verifD256 with byte 1 = 0) or another one
	pinIsTheCert := verifapi.Bool()
	cfg := TLSServerConfig{Name: "srv", Cert: dir + "/cert", Key: dir + "/key", ClientCAs: dir + "/ca", RequireClientCert: true,
		SkipReceptorNamesCheck: true, MinTLS13: verifapi.Bool()}
	if pinned {
		fp := "02" + strings.Repeat("00", 31)
		if !pinIsTheCert {
			fp = "07" + strings.Repeat("00", 31)
		}
		cfg.PinnedClientCert = []string{fp}
	}
	profile, err := cfg.PrepareTLSServerConfig(n.s)
	verifapi.Assert("profile-prepared", err == nil && profile != nil)
	ctx, cancel := context.WithCancel(context.Background())
	li, err := n.s.listen(ctx, "svc", profile, false, nil)
	verifapi.Assert("listener-created", err == nil && li != nil && captured != nil)
	claimed := []string{"N", "NN", "N:x"}[verifapi.Choose(3)]
	certName := []string{"N", "NN", "N:x", "C", ""}[verifapi.Choose(5)]
	m.certs = []verifCertSpec{{parses: true, cert: &x509.Certificate{Raw: []byte{0, 0xAA}}}}
	m.names = []string{certName}
	// what crypto/tls does for a client hello: ask for the per-client configuration if there is a hook, then run its verifier
	eff := captured
	if captured.GetConfigForClient != nil {
		hi := &tls.ClientHelloInfo{Conn: verifHelloConn{addr: Addr{network: "netceptor-A", node: claimed, service: "svc9"}}}
		cc, cerr := captured.GetConfigForClient(hi)
		verifapi.Assert("per-client-configuration-built", cerr == nil)
		if cc != nil {
			eff = cc
		}
	}
	verifapi.Assert("client-certificate-demanded", verifapi.Any(eff.ClientAuth == tls.RequireAndVerifyClientCert, eff.ClientAuth == tls.RequireAnyClientCert))
	var verr error
	if eff.VerifyPeerCertificate != nil {
		verr = eff.VerifyPeerCertificate([][]byte{{0, 0xAA}}, nil)
	}
	verifapi.Cover("client-verified")
	verifapi.Assert("mutual-tls-listener-accepts-iff-certificate-names-the-claimed-node-and-pin-matches",
		(verr == nil) == verifapi.All(certName == claimed, verifapi.Any(!pinned, pinIsTheCert)))
	cancel()
	_ = li.Close()
	verifapi.Quiesce()
}

// Verif_C20_only_the_leaf_names_the_peer (property C20: a certificate is accepted for the node IDs it
// was issued for and for no other ID): the verifier's decision table of Verif_C09_verify_decision, in
// which a second presented certificate naming the expected node never makes a leaf acceptable.
func Verif_C20_only_the_leaf_names_the_peer() { Verif_C09_verify_decision() }
