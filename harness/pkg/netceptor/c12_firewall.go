package netceptor

import (
	"github.com/ansible/receptor/internal/verifapi"
)

// C12 - firewall: the first matching rule decides; rules that cannot be interpreted are refused.

// verifPatterns enumerates a bounded regular-expression grammar over the alphabet {a,b}:
// atoms, one unary operator, and binary combinations (alternation, concatenation, grouping).
func verifPatterns(thorough bool) []string {
	atoms := []string{"a", "b", ".", "[ab]", "[^a]", "ab", "(?i)a", "a*", "a+", "b?", "(ab)", ""}
	var out []string
	out = append(out, atoms...)
	for _, x := range []string{"a", "b", "ab", "a*", "[ab]", "."} {
		for _, y := range []string{"a", "b", "ba", "b+", "[^a]", ""} {
			out = append(out, x+"|"+y)
			if thorough {
				out = append(out, "("+x+"|"+y+")", "("+x+"|"+y+")*", x+"("+y+"|a)", "(?:"+x+")|"+y+"|aa", x+y, "("+x+")?"+y)
			}
		}
	}
	out = append(out, "a|b|ab", "(a|b)a", "a(a|b)", "(a|b)(a|b)", "^a", "a$", "^a|b$", "a|", "|a", "(a)|(b)")
	return out
}

// Verif_C12_regex_language: for every pattern p of the grammar and every subject string s (bounded
// length, arbitrary ASCII bytes): a rule "fromnode: /p/" matches a packet from s  <=>  ALL of s is in
// the language of p. The left side is what the real rule builder compiles and the real matcher program
// accepts; the right side is the language of p alone.
func Verif_C12_regex_language() {
	pats := verifPatterns(verifapi.Tier() == 1)
	p := pats[verifapi.Choose(len(pats))]
	maxLen := 3
	if verifapi.Tier() == 1 {
		maxLen = 4
	}
	subj := verifapi.StringUpTo(maxLen)
	field := verifapi.Choose(4)
	key := []string{"fromnode", "tonode", "fromservice", "toservice"}[field]
	rules, err := ParseFirewallRules([]FirewallRuleData{{key: "/" + p + "/", "action": "drop"}})
	verifapi.Assert("valid-regex-rule-accepted", err == nil && len(rules) == 1)
	md := &MessageData{FromNode: "x", ToNode: "y", FromService: "v", ToService: "w"}
	switch field {
	case 0:
		md.FromNode = subj
	case 1:
		md.ToNode = subj
	case 2:
		md.FromService = subj
	case 3:
		md.ToService = subj
	}
	got := rules[0](md)
	want := verifapi.FullMatch(p, subj)
	verifapi.Cover("rule-evaluated")
	verifapi.Known("alternation-not-grouped", true)
	verifapi.Assert("regex-rule-matches-iff-full-match", (got == FirewallResultDrop) == want)
	verifapi.Assert("regex-rule-result-is-action-or-continue", got == FirewallResultDrop || got == FirewallResultContinue)
}

// Verif_C12_malformed_refused: rule data that cannot be interpreted is refused with an error (no
// panic, no rule function that silently matches more than what was written).
func Verif_C12_malformed_refused() {
	var rd FirewallRuleData
	switch verifapi.Choose(15) {
	case 0:
		rd = FirewallRuleData{"action": "drop", "fromnode": "/"} // lone slash
		verifapi.Known("lone-slash", true)
	case 1:
		rd = FirewallRuleData{"action": "drop", "fromnode": "/abc"} // unterminated pattern
		verifapi.Known("pattern-error-dropped", true)
	case 2:
		rd = FirewallRuleData{"action": "drop", "tonode": "/a(/"} // does not compile
		verifapi.Known("pattern-error-dropped", true)
	case 3:
		rd = FirewallRuleData{"action": "drop", "toservice": "/[a/"}
		verifapi.Known("pattern-error-dropped", true)
	case 4:
		rd = FirewallRuleData{"action": "drop", "fromservice": "/*/"}
		verifapi.Known("pattern-error-dropped", true)
	case 5:
		rd = FirewallRuleData{"action": "drop", "fromhost": "x"} // unknown key
	case 6:
		rd = FirewallRuleData{"action": "deny", "fromnode": "x"} // unknown action
	case 7:
		rd = FirewallRuleData{"fromnode": "x"} // no action
	case 8:
		rd = FirewallRuleData{"action": "drop", "fromnode": 5} // non-string value
	case 9:
		rd = FirewallRuleData{"action": "drop", "fromnode": nil}
	case 10:
		rd = FirewallRuleData{"action": "drop", 7: "x"} // non-string key
	case 11:
		rd = FirewallRuleData{"action": "drop", "fromnode": []interface{}{"a"}}
	case 12: // ANY key of 1..11 ASCII bytes that is not one of the five documented keys (in any letter case)
		key := verifapi.String(1 + verifapi.Choose(11))
		for i := 0; i < len(key); i++ {
			verifapi.Assume(key[i] < 0x80)
		}
		for _, legal := range []string{"action", "fromnode", "tonode", "fromservice", "toservice"} {
			verifapi.Assume(!verifEqualFoldASCII(key, legal))
		}
		rd = FirewallRuleData{"action": "drop", key: "x"}
	case 13: // ANY action of 1..6 ASCII bytes other than accept / reject / drop (in any letter case)
		act := verifapi.String(1 + verifapi.Choose(6))
		for i := 0; i < len(act); i++ {
			verifapi.Assume(act[i] < 0x80)
		}
		for _, legal := range []string{"accept", "reject", "drop"} {
			verifapi.Assume(!verifEqualFoldASCII(act, legal))
		}
		rd = FirewallRuleData{"action": act, "fromnode": "x"}
	case 14: // a pattern that cannot be interpreted in ANY one field, together with any subset of well-formed other fields
		fields := []string{"fromnode", "tonode", "fromservice", "toservice"}
		bad := verifapi.Choose(4)
		rd = FirewallRuleData{"action": []string{"accept", "drop", "reject"}[verifapi.Choose(3)]}
		pats := []string{"/ctl[12/", "/abc", "/a(/", "/", "/*a/", "/a)|(?:b/", "/)(/", "/x)y/"}
		pi := verifapi.Choose(len(pats))
		// patterns whose parentheses do not balance must not be repaired by the anchoring group wrapped around them
		verifapi.Known("unbalanced-pattern-accepted-through-the-anchoring-group", pi == 5)
		rd[fields[bad]] = pats[pi]
		for i, f := range fields {
			if i != bad && verifapi.Bool() {
				rd[f] = []string{"lit", "/a.*/"}[verifapi.Choose(2)]
			}
		}
	}
	rules, err := ParseFirewallRules([]FirewallRuleData{{"action": "accept", "fromnode": "ok"}, rd})
	verifapi.Cover("parsed")
	verifapi.Assert("malformed-rule-refused", err != nil)
	verifapi.Assert("no-rules-from-a-refused-set", len(rules) == 0)
}

// verifEqualFoldASCII is ASCII case-insensitive equality, written independently of package strings.
func verifEqualFoldASCII(a, b string) bool {
	if len(a) != len(b) {
		return false
	}
	eq := true
	for i := 0; i < len(a); i++ {
		x, y := a[i], b[i]
		lx := verifapi.Ite(verifapi.All(x >= 'A', x <= 'Z'), int(x)+32, int(x))
		ly := verifapi.Ite(verifapi.All(y >= 'A', y <= 'Z'), int(y)+32, int(y))
		eq = verifapi.All(eq, lx == ly)
	}
	return eq
}

type verifFwNode struct {
	n    *verifNode
	cb   *connInfo
	sock *verifSock
}

func verifFwMk(rules []FirewallRuleFunc, md *MessageData) *verifFwNode {
	n := verifNetceptor("A")
	f := &verifFwNode{n: n, cb: n.verifConn("B", 1), sock: n.verifListener("s")}
	n.s.firewallRules = rules
	n.s.AddNameHash(md.FromNode)
	n.s.AddNameHash(md.ToNode)
	n.s.routingTable[md.FromNode] = "B"
	n.s.routingTable[md.ToNode] = "B"
	return f
}

// verifRuleSpec is the harness's own record of a rule (for the reference evaluator).
type verifRuleSpec struct {
	given [4]bool
	lit   [4]string
	act   FirewallResult
}

// verifFirstMatch is the reference semantics: the first rule all of whose given fields equal the
// packet's fields decides; no match = accept.
func verifFirstMatch(specs []verifRuleSpec, fromNode, toNode, fromService, toService string) FirewallResult {
	res := int(FirewallResultAccept)
	decided := false
	for _, r := range specs {
		m := verifapi.All(!r.given[0] || r.lit[0] == fromNode, !r.given[1] || r.lit[1] == toNode,
			!r.given[2] || r.lit[2] == fromService, !r.given[3] || r.lit[3] == toService)
		res = verifapi.Ite(verifapi.All(m, !decided), int(r.act), res) // branch-free: one term per verdict
		decided = verifapi.Any(decided, m)
	}
	return FirewallResult(res)
}

// Verif_C12_first_match: an ordered list of literal rules (subsets of the four fields, any action,
// any key/action spelling) against representative packets: the node treats the packet - and every
// packet it originates itself in response (unreachable notices) - as the first matching rule
// dictates: accept = normal dispatch, drop = nothing at all, reject = nothing but a 'blocked by
// firewall' notice to the source; no matching rule = accept.
func Verif_C12_first_match() {
	nRules := 2
	if verifapi.Tier() == 1 && verifapi.Bool() {
		nRules = 3
	}
	// representative packets: to a bound local service, to an unbound local service, in transit, an
	// unreachable notice, a locally originated packet, a packet from a remote (non-neighbour) node
	pkts := []MessageData{
		{FromNode: "B", ToNode: "A", FromService: "f", ToService: "s"},
		{FromNode: "B", ToNode: "A", FromService: "f", ToService: "t"},
		{FromNode: "B", ToNode: "C", FromService: "f", ToService: "s"},
		{FromNode: "B", ToNode: "A", FromService: "unreach", ToService: "s"},
		{FromNode: "A", ToNode: "C", FromService: "f", ToService: "t"},
		{FromNode: "Q", ToNode: "C", FromService: "f", ToService: "t"},
	}
	pi := verifapi.Choose(len(pkts))
	md := &pkts[pi]
	md.HopsToLive = 3
	md.Data = []byte{7}
	var data []FirewallRuleData
	var specs []verifRuleSpec
	for i := 0; i < nRules; i++ {
		style := (pi + i) % 3 // key/action spelling: lower, camel, upper
		k := func(lower, camel, upper string) string { return []string{lower, camel, upper}[style] }
		rd := FirewallRuleData{}
		spec := verifRuleSpec{}
		// which fields the rule constrains: representative subsets, or every subset (thorough, two rules)
		masks := []int{0, 1, 2 | 8, 4, 15}
		if nRules == 3 {
			masks = []int{0, 1, 15}
		} else if verifapi.Tier() == 1 {
			masks = []int{0, 1, 2, 3, 4, 5, 6, 7, 8, 9, 10, 11, 12, 13, 14, 15}
		}
		mask := masks[verifapi.Choose(len(masks))]
		keys := []string{k("fromnode", "FromNode", "FROMNODE"), k("tonode", "ToNode", "TONODE"), k("fromservice", "FromService", "FROMSERVICE"), k("toservice", "ToService", "TOSERVICE")}
		vals := []string{md.FromNode, md.ToNode, md.FromService, md.ToService}
		for bit := 0; bit < 4; bit++ {
			if mask&(1<<bit) != 0 {
				// an arbitrary literal of the field's length (it may equal the packet's value; other lengths never match)
				lit := verifapi.String(len(vals[bit]))
				verifapi.Assume(lit[0] != '/')
				rd[keys[bit]] = lit
				spec.given[bit], spec.lit[bit] = true, lit
			}
		}
		act := verifapi.Choose(3)
		rd[k("action", "Action", "ACTION")] = [][]string{{"accept", "Accept", "ACCEPT"}, {"reject", "Reject", "REJECT"}, {"drop", "Drop", "DROP"}}[act][style]
		spec.act = []FirewallResult{FirewallResultAccept, FirewallResultReject, FirewallResultDrop}[act]
		data = append(data, rd)
		specs = append(specs, spec)
	}
	rules, err := ParseFirewallRules(data)
	verifapi.Assert("wellformed-rules-accepted", err == nil && len(rules) == nRules)
	fw := verifFwMk(rules, md)
	errFw := fw.n.s.handleMessageData(md)
	verifapi.Quiesce()
	out := verifTake(fw.cb)
	got := len(*fw.sock.got)

	want := verifFirstMatch(specs, md.FromNode, md.ToNode, md.FromService, md.ToService)
	// the verdict on the notice this node would originate towards the packet's source
	noticeVerdict := verifFirstMatch(specs, "A", md.FromNode, "unreach", "unreach")
	localBound := md.ToNode == "A" && md.ToService == "s"
	localUnbound := md.ToNode == "A" && md.ToService != "s"
	checkNotice := func(problem string) {
		if md.FromService == "unreach" || md.FromNode == "A" || noticeVerdict != FirewallResultAccept {
			// a notice about a notice is never sent; a local source is told through the local broker; and the
			// notice is itself a packet this node originates, so the rules apply to it as well
			verifapi.Assert("no-notice-on-the-wire", len(out) == 0)
			return
		}
		verifapi.Cover("notice-sent")
		verifapi.Assert("exactly-one-notice", len(out) == 1)
		m, derr := fw.n.s.translateDataToMessage(out[0])
		verifapi.Assert("notice-decodes", derr == nil)
		verifapi.Assert("notice-to-source", verifapi.All(m.ToNode == md.FromNode, m.ToService == "unreach", m.FromService == "unreach", m.FromNode == "A"))
		var um UnreachableMessage
		verifapi.Assert("notice-body-decodes", verifapi.FromJSON(m.Data, &um))
		verifapi.Assert("notice-names-packet", verifapi.All(um.FromNode == md.FromNode, um.ToNode == md.ToNode,
			um.FromService == md.FromService, um.ToService == md.ToService, um.Problem == problem))
	}
	switch want {
	case FirewallResultAccept:
		verifapi.Cover("accepted")
		switch {
		case localBound:
			verifapi.Assert("accepted-packet-delivered", verifapi.All(got == 1, len(out) == 0, errFw == nil))
		case localUnbound:
			verifapi.Assert("accepted-packet-for-unbound-service-not-delivered", got == 0)
			checkNotice(ProblemServiceUnknown)
		default:
			verifapi.Assert("accepted-packet-forwarded-once", verifapi.All(got == 0, len(out) == 1, errFw == nil))
			m, derr := fw.n.s.translateDataToMessage(out[0])
			verifapi.Assert("forwarded-packet-intact", verifapi.All(derr == nil, m.FromNode == md.FromNode, m.ToNode == md.ToNode,
				m.FromService == md.FromService, m.ToService == md.ToService, verifapi.SameBytes(m.Data, md.Data)))
		}
	case FirewallResultDrop:
		verifapi.Cover("dropped")
		verifapi.Assert("drop-is-silent", verifapi.All(got == 0, len(out) == 0, errFw == nil))
	case FirewallResultReject:
		verifapi.Cover("rejected")
		verifapi.Assert("reject-not-delivered", got == 0)
		checkNotice(ProblemRejected)
	}
	verifapi.Assert("no-lock-left-held", verifapi.HeldLocks() == 0)
}

// Verif_C12_rule_reuse: one parsed rule set (a regex rule followed by a literal rule) decides three
// packets one after the other: every verdict is that of the first matching rule for THAT packet - a
// rule function keeps nothing from the packets it has seen.
func Verif_C12_rule_reuse() {
	pats := []string{"a|b", "a*", "[ab]b", "(?i)ab", "a.", "^a$"}
	p := pats[verifapi.Choose(len(pats))]
	lit := verifapi.String(2)
	verifapi.Assume(lit[0] != '/')
	rules, err := ParseFirewallRules([]FirewallRuleData{{"fromnode": "/" + p + "/", "action": "drop"}, {"FromNode": lit, "Action": "Reject"}})
	verifapi.Assert("rules-accepted", err == nil && len(rules) == 2)
	eval := func(from string) FirewallResult {
		md := &MessageData{FromNode: from, ToNode: "t", FromService: "f", ToService: "s"}
		for _, r := range rules {
			if res := r(md); res != FirewallResultContinue {
				return res
			}
		}
		return FirewallResultAccept
	}
	for i := 0; i < 3; i++ {
		subj := verifapi.StringUpTo(2)
		got := eval(subj)
		want := FirewallResultAccept
		if verifapi.FullMatch(p, subj) {
			want = FirewallResultDrop
		} else if subj == lit {
			want = FirewallResultReject
		}
		verifapi.Assert("each-packet-judged-on-its-own", got == want)
	}
	verifapi.Cover("three-packets")
}

// Verif_C12_rules_replaced_during_evaluation: the rule list is replaced (AddFirewallRules with
// clearExisting) while a packet is being judged, every schedule within the pre-emption bound. The old
// list is [no match, accept] and the new one [accept, drop]: by its first matching rule EITHER list
// accepts the packet, so it is delivered whichever list judges it - a verdict mixed from both is not
// "the first matching rule of the configured list".
func Verif_C12_rules_replaced_during_evaluation() {
	n := verifNetceptor("A")
	s := n.s
	sk := n.verifListener("svc")
	oldRules, err := ParseFirewallRules([]FirewallRuleData{{"action": "drop", "fromnode": "nobody"}, {"action": "accept"}})
	verifapi.Assert("old-rules-parse", err == nil)
	// rule functions are caller-supplied: the first old rule is one that takes a while (a scheduling point) and does not match
	slow := oldRules[0]
	oldRules[0] = func(md *MessageData) FirewallResult {
		verifapi.Yield()
		return slow(md)
	}
	newRules, err := ParseFirewallRules([]FirewallRuleData{{"action": "accept", "tonode": "A"}, {"action": "drop"}})
	verifapi.Assert("new-rules-parse", err == nil)
	verifapi.Assert("old-rules-installed", s.AddFirewallRules(oldRules, true) == nil)
	verifapi.ExploreSchedules(1 + verifapi.Tier())
	done := make(chan bool, 2)
	go func() {
		_ = s.handleMessageData(&MessageData{FromNode: "B", ToNode: "A", FromService: "x", ToService: "svc", HopsToLive: 5, Data: []byte{1}})
		done <- true
	}()
	go func() {
		_ = s.AddFirewallRules(newRules, true)
		done <- true
	}()
	<-done
	<-done
	verifapi.ExploreSchedules(0)
	verifapi.Quiesce()
	verifapi.Cover("judged-during-reconfiguration")
	verifapi.Assert("packet-accepted-by-either-list-is-delivered", len(*sk.got) == 1)
	verifapi.Assert("no-lock-left-held", verifapi.HeldLocks() == 0)
}

// Verif_C12_rules_judge_every_packet_whatever_its_budget: a packet for another node that arrives with
// ANY hop budget (0 included) is judged by the rules first: a drop rule keeps it silent (no forwarding,
// no notice of any kind), a reject rule answers "blocked by firewall" and nothing else.
func Verif_C12_rules_judge_every_packet_whatever_its_budget() {
	n := verifNetceptor("A")
	s := n.s
	cb := n.verifConn("B", 1)
	cc := n.verifConn("C", 1)
	s.routingTable["B"] = "B"
	s.routingTable["C"] = "C"
	action := []string{"drop", "reject"}[verifapi.Choose(2)]
	rules, err := ParseFirewallRules([]FirewallRuleData{{"action": action, "fromnode": "B"}})
	verifapi.Assert("rules-parse", err == nil)
	verifapi.Assert("rules-installed", s.AddFirewallRules(rules, true) == nil)
	h := verifapi.Byte()
	_ = s.handleMessageData(&MessageData{FromNode: "B", ToNode: "C", FromService: "x", ToService: "svc", HopsToLive: h, Data: []byte{1}})
	verifapi.Quiesce()
	toB, toC := verifTake(cb), verifTake(cc)
	verifapi.Cover("judged")
	verifapi.Assert("filtered-packet-not-forwarded", len(toC) == 0)
	if action == "drop" {
		verifapi.Assert("dropped-packet-produces-no-notice-at-all", len(toB) == 0)
	} else {
		verifapi.Assert("rejected-packet-answered-once", len(toB) == 1)
		if len(toB) == 1 {
			md, derr := s.translateDataToMessage(toB[0])
			um := &UnreachableMessage{}
			verifapi.Assert("answer-is-a-firewall-notice", verifapi.All(derr == nil, md.ToService == "unreach", verifapi.FromJSON(md.Data, um), um.Problem == ProblemRejected))
		}
	}
}
