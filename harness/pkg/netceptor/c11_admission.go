package netceptor

import (
	"context"
	"io"
	"time"

	"github.com/ansible/receptor/internal/verifapi"
)

// C11 - only admissible peers stay connected.

// verifGatedSession delivers its script; after the script it blocks until the gate is closed and
// then reports EOF (the peer hangs up), so the harness can look at the node in mid-session.
type verifGatedSession struct {
	verifSession
	gate chan struct{}
}

func (v *verifGatedSession) Recv(d time.Duration) ([]byte, error) {
	if v.pos < len(v.script) {
		return v.verifSession.Recv(d)
	}
	<-v.gate
	return nil, io.EOF
}

func verifRejected(sent [][]byte) bool {
	for _, m := range sent {
		if len(m) > 0 && m[0] == MsgTypeReject {
			return true
		}
	}
	return false
}

type verifRun struct {
	sess *verifGatedSession
	done chan error
	ctx  context.Context
	stop context.CancelFunc
}

func verifStartProtocol(n *verifNode, script [][]byte, bi *BackendInfo) *verifRun {
	r := &verifRun{done: make(chan error, 1)}
	r.sess = &verifGatedSession{verifSession: *verifNewSession(script), gate: make(chan struct{})}
	r.ctx, r.stop = context.WithCancel(n.s.context)
	go func() {
		r.done <- n.s.runProtocol(r.ctx, r.sess, bi)
	}()
	return r
}

// Verif_C11_admission: every first message against every allow-list / cost override / existing
// connection: the session is established iff the announced id is non-empty, not ours, allowed and
// not yet connected; otherwise a reject is written and nothing about the node changes. When the
// session ends nothing of it is left behind.
func Verif_C11_admission() {
	verifapi.SelectFork(false)
	n := verifNetceptor("A")
	s := n.s
	n.verifConn("C", 1)
	s.knownConnectionCosts["A"] = map[string]float64{"C": 1}
	s.knownConnectionCosts["C"] = map[string]float64{"A": 1}
	bi := &BackendInfo{connectionCost: verifapi.Float()}
	verifapi.Assume(bi.connectionCost > 0)
	switch verifapi.Choose(3) {
	case 0: // no allow-list
	case 1:
		bi.allowedPeers = []string{"B"}
	case 2:
		bi.allowedPeers = []string{"D", ""}
	}
	hasOverride := verifapi.Bool()
	override := verifapi.Float()
	verifapi.Assume(override > 0)
	if hasOverride {
		bi.nodeCost = map[string]float64{"B": override}
	}
	fwd := []string{"", "A", "B", "C", "D"}[verifapi.Choose(5)]
	first := &routingUpdate{}
	verifapi.Havoc(first)
	first.ForwardingNode = fwd
	run := verifStartProtocol(n, [][]byte{append([]byte{MsgTypeRoute}, verifapi.JSON(first)...)}, bi)
	verifapi.Quiesce()

	allowed := bi.allowedPeers == nil
	for _, p := range bi.allowedPeers {
		if p == fwd {
			allowed = true
		}
	}
	admissible := fwd != "" && fwd != "A" && fwd != "C" && allowed
	verifapi.Known("empty-peer-id", fwd == "")
	ci, connected := s.connections[fwd]
	if fwd == "C" {
		connected = false // that entry belongs to the other session
	}
	if admissible {
		verifapi.Cover("established")
		verifapi.Assert("admissible-peer-is-connected", connected)
		want := bi.connectionCost
		if hasOverride && fwd == "B" {
			want = override
		}
		verifapi.Assert("recorded-cost", verifapi.All(ci.Cost == want, s.knownConnectionCosts["A"][fwd] == want, s.knownConnectionCosts[fwd]["A"] == want))
		verifapi.Assert("no-reject-for-admissible-peer", !verifRejected(*run.sess.sent))
	} else {
		verifapi.Cover("refused")
		verifapi.Assert("inadmissible-peer-not-connected", !connected)
		verifapi.Assert("inadmissible-peer-gets-reject", verifRejected(*run.sess.sent))
		_, leak := s.knownConnectionCosts["A"][fwd]
		verifapi.Assert("refused-leaves-no-route", !leak || fwd == "C")
	}
	// the other connection is never disturbed
	_, cStill := s.connections["C"]
	verifapi.Assert("existing-connection-kept", verifapi.All(cStill, s.knownConnectionCosts["A"]["C"] == 1, s.knownConnectionCosts["C"]["A"] == 1))
	// the peer hangs up
	close(run.sess.gate)
	verifapi.Quiesce()
	select {
	case <-run.done:
		verifapi.Cover("session-returned")
	default:
		verifapi.Assert("session-returns-after-hangup", false)
	}
	if fwd != "C" {
		_, left := s.connections[fwd]
		verifapi.Assert("forgotten-after-session-end", !left)
		_, r1 := s.knownConnectionCosts["A"][fwd]
		_, r2 := s.knownConnectionCosts[fwd]["A"]
		verifapi.Assert("no-route-left-behind", verifapi.All(!r1, !r2))
	}
	_, cStill = s.connections["C"]
	verifapi.Assert("existing-connection-kept-after-end", verifapi.All(cStill, s.knownConnectionCosts["A"]["C"] == 1, s.knownConnectionCosts["C"]["A"] == 1))
	verifapi.Assert("no-lock-left-held", verifapi.HeldLocks() == 0)
}

// Verif_C11_eviction: after a correct handshake from B (cost 1), optionally followed by a regular
// update of B that lists us (so B has "listed us" once), any further routing update:
// a different forwarder, B no longer listing us after having listed us, or a different cost
// => disconnected with a reject; otherwise the connection stays (unless the update tells us that we
// are a duplicate node, which shuts the whole node down - that is C11's duplicate-id rule).
func Verif_C11_eviction() {
	verifapi.SelectFork(false)
	n := verifNetceptor("A")
	s := n.s
	second := &routingUpdate{}
	verifapi.Havoc(second)
	second.ForwardingNode = []string{"B", "C", ""}[verifapi.Choose(3)]
	second.NodeID = []string{"B", "C", "A"}[verifapi.Choose(3)]
	second.UpdateID = "u2"
	listed := verifapi.Bool()
	cost := verifapi.Float()
	verifapi.Assume(cost > 0)
	second.Connections = map[string]float64{}
	if listed {
		second.Connections["A"] = cost
	}
	script := [][]byte{verifHandshake("B", 1)}
	listedBefore := verifapi.Bool()
	if listedBefore {
		mid := &routingUpdate{NodeID: "B", UpdateID: "u1", UpdateEpoch: 5, UpdateSequence: 2,
			Connections: map[string]float64{"A": 1}, ForwardingNode: "B"}
		script = append(script, append([]byte{MsgTypeRoute}, verifapi.JSON(mid)...))
	}
	script = append(script, append([]byte{MsgTypeRoute}, verifapi.JSON(second)...))
	run := verifStartProtocol(n, script, &BackendInfo{connectionCost: 1})
	verifapi.Quiesce()
	_, connected := s.connections["B"]
	evict := second.ForwardingNode != "B" || (second.NodeID == "B" && ((!listed && listedBefore) || (listed && cost != 1)))
	weAreDuplicate := second.ForwardingNode == "B" && second.NodeID == "A" && second.UpdateEpoch != s.epoch && second.SuspectedDuplicate == s.epoch
	if evict {
		verifapi.Cover("evicted")
		verifapi.Assert("misbehaving-peer-disconnected", !connected)
		verifapi.Assert("misbehaving-peer-gets-reject", verifRejected(*run.sess.sent))
		_, r1 := s.knownConnectionCosts["A"]["B"]
		_, r2 := s.knownConnectionCosts["B"]["A"]
		verifapi.Assert("evicted-leaves-no-route", verifapi.All(!r1, !r2))
		select {
		case <-run.done:
		default:
			verifapi.Assert("evicting-session-returns", false)
		}
	} else if weAreDuplicate {
		verifapi.Cover("told-we-are-the-duplicate")
		verifapi.Assert("duplicate-node-shuts-down", s.context.Err() != nil)
	} else {
		verifapi.Cover("kept")
		verifapi.Assert("wellbehaved-peer-stays", connected)
		verifapi.Assert("wellbehaved-peer-no-reject", !verifRejected(*run.sess.sent))
		verifapi.Assert("node-keeps-running", s.context.Err() == nil)
	}
	close(run.sess.gate)
	verifapi.Quiesce()
	_, left := s.connections["B"]
	verifapi.Assert("forgotten-after-session-end", !left)
	verifapi.Assert("no-lock-left-held", verifapi.HeldLocks() == 0)
}

// Verif_C11_cancel_parked: the establishment sequence is parked at one of its blocking points (the
// tick runner is busy, so the flood request or the table request is not taken) when the backend
// context is cancelled (reload, shutdown, peer drop). Whatever the point, the session returns and
// leaves neither a connection entry nor a route for the peer. Deterministic, so it replays natively.
func Verif_C11_cancel_parked() {
	verifapi.SelectFork(false)
	n := verifNetceptor("A")
	s := n.s
	stage := verifapi.Choose(3)
	switch stage {
	case 0: // flood request not served
		s.sendRouteFloodChan = make(chan time.Duration)
	case 1: // table request not served
		s.updateRoutingTableChan = make(chan time.Duration)
	case 2: // everything served: cancelled after establishment
	}
	run := verifStartProtocol(n, [][]byte{verifHandshake("B", 1)}, &BackendInfo{connectionCost: 1})
	verifapi.Quiesce()
	_, registered := s.connections["B"]
	verifapi.Assert("peer-registered-while-establishing", registered)
	run.stop()
	verifapi.Quiesce()
	select {
	case <-run.done:
		verifapi.Cover("session-returned")
	default:
		verifapi.Assert("session-returns-after-cancel", false)
	}
	_, left := s.connections["B"]
	verifapi.Known("cancel-while-table-request-pending", stage == 1)
	verifapi.Assert("cancelled-session-leaves-no-connection", !left)
	_, r1 := s.knownConnectionCosts["A"]["B"]
	_, r2 := s.knownConnectionCosts["B"]["A"]
	verifapi.Assert("cancelled-session-leaves-no-route", verifapi.All(!r1, !r2))
	close(run.sess.gate)
	verifapi.Quiesce()
	verifapi.Assert("no-lock-left-held", verifapi.HeldLocks() == 0)
}

// Verif_C11_cancel_during_establishment: the backend context is cancelled (reload, shutdown, peer
// drop) at ANY point of the establishment sequence - every select that can take the cancellation
// branch does so on some path. Whatever the point, no entry for the peer is left behind.
func Verif_C11_cancel_during_establishment() {
	n := verifNetceptor("A")
	s := n.s
	verifapi.Quiesce()
	verifapi.ExploreSchedules(1 + verifapi.Tier())
	run := verifStartProtocol(n, [][]byte{verifHandshake("B", 1)}, &BackendInfo{connectionCost: 1})
	verifapi.GoLow(run.stop)
	verifapi.Quiesce()
	close(run.sess.gate)
	verifapi.Quiesce()
	select {
	case <-run.done:
		verifapi.Cover("session-returned")
	default:
		verifapi.Assert("session-returns-after-cancel", false)
	}
	_, left := s.connections["B"]
	verifapi.Known("cancel-after-registration", true)
	verifapi.Assert("cancelled-session-leaves-no-connection", !left)
	_, r1 := s.knownConnectionCosts["A"]["B"]
	verifapi.Assert("cancelled-session-leaves-no-route", !r1)
}

// Verif_C11_same_id_race: two sessions announce the same id at the same time; under every
// schedule (2 pre-emptions) exactly one is established and the loser is rejected without
// removing the winner's entry.
func Verif_C11_same_id_race() {
	verifapi.ExploreSchedules(2) // 3 pre-emptions exceed 200000 paths; the thorough tier deepens the cancellation harness instead
	verifapi.SelectFork(false)
	n := verifNetceptor("A")
	s := n.s
	bi := &BackendInfo{connectionCost: 1}
	r1 := verifStartProtocol(n, [][]byte{verifHandshake("B", 1)}, bi)
	r2 := verifStartProtocol(n, [][]byte{verifHandshake("B", 1)}, bi)
	verifapi.Quiesce()
	rej1, rej2 := verifRejected(*r1.sess.sent), verifRejected(*r2.sess.sent)
	verifapi.Cover("both-handshakes-processed")
	verifapi.Assert("exactly-one-session-rejected", rej1 != rej2)
	_, connected := s.connections["B"]
	verifapi.Assert("winner-stays-connected", connected)
	_, route := s.knownConnectionCosts["A"]["B"]
	verifapi.Assert("winner-keeps-its-route", route)
}

// verifDirectUpdate is a routing update of peer id about itself that lists us with the given cost.
func verifDirectUpdate(id, updateID string, seq uint64, cost float64) []byte {
	ru := &routingUpdate{NodeID: id, UpdateID: updateID, UpdateEpoch: 5, UpdateSequence: seq,
		Connections: map[string]float64{"A": cost}, ForwardingNode: id}
	return append([]byte{MsgTypeRoute}, verifapi.JSON(ru)...)
}

// Verif_C11_cost_override_is_per_peer: one backend (one BackendInfo shared by all its sessions) with
// link cost 1 and a per-node override "B costs 5". B connects (before or after the other peer) and
// confirms cost 5. Another peer C - for which no override exists - announces cost 1 or cost 5: it stays
// connected iff it agrees with the backend's own cost 1; B's override does not spill over to other peers.
func Verif_C11_cost_override_is_per_peer() {
	verifapi.SelectFork(false)
	n := verifNetceptor("A")
	s := n.s
	bi := &BackendInfo{connectionCost: 1, nodeCost: map[string]float64{"B": 5}}
	bFirst := verifapi.Bool()
	cCost := []float64{1, 5}[verifapi.Choose(2)]
	var rb, rc *verifRun
	startB := func() {
		rb = verifStartProtocol(n, [][]byte{verifDirectUpdate("B", "hb", 1, 5), verifDirectUpdate("B", "ub", 2, 5)}, bi)
		verifapi.Quiesce()
	}
	startC := func() {
		rc = verifStartProtocol(n, [][]byte{verifDirectUpdate("C", "hc", 1, cCost), verifDirectUpdate("C", "uc", 2, cCost)}, bi)
		verifapi.Quiesce()
	}
	if bFirst {
		startB()
		startC()
	} else {
		startC()
		startB()
	}
	verifapi.Cover("both-peers-handled")
	cb, bConn := s.connections["B"]
	verifapi.Assert("peer-with-override-connected-at-the-override-cost", verifapi.All(bConn, cb != nil, cb.Cost == 5, !verifRejected(*rb.sess.sent)))
	cc, cConn := s.connections["C"]
	if cCost == 1 {
		verifapi.Assert("peer-agreeing-with-the-backend-cost-stays-connected", verifapi.All(cConn, cc != nil, cc.Cost == 1, !verifRejected(*rc.sess.sent)))
		verifapi.Assert("its-link-is-recorded-at-the-backend-cost", s.knownConnectionCosts["A"]["C"] == 1)
	} else {
		verifapi.Assert("peer-disagreeing-with-the-backend-cost-rejected", verifapi.All(!cConn, verifRejected(*rc.sess.sent)))
	}
	close(rb.sess.gate)
	close(rc.sess.gate)
	verifapi.Quiesce()
	verifapi.Assert("no-lock-left-held", verifapi.HeldLocks() == 0)
}

// Verif_C11_allow_list_given_through_the_api: the allow-list reaches the protocol loop through the
// public backend option (BackendAllowedPeers), as every backend hands it over: no list at all (anyone
// may connect), an EMPTY list (nobody may), a list naming the peer, a list naming somebody else.
func Verif_C11_allow_list_given_through_the_api() {
	verifapi.SelectFork(false)
	n := verifNetceptor("A")
	s := n.s
	bi := &BackendInfo{connectionCost: 1}
	which := verifapi.Choose(4)
	switch which {
	case 1:
		BackendAllowedPeers([]string{})(bi)
	case 2:
		BackendAllowedPeers([]string{"B"})(bi)
	case 3:
		BackendAllowedPeers([]string{"Z"})(bi)
	}
	r := verifStartProtocol(n, [][]byte{verifHandshake("B", 1)}, bi)
	verifapi.Quiesce()
	_, connected := s.connections["B"]
	verifapi.Cover("handshake-handled")
	admissible := which == 0 || which == 2
	verifapi.Assert("peer-connected-iff-the-allow-list-admits-it", connected == admissible)
	verifapi.Assert("refused-peer-is-told", admissible || verifRejected(*r.sess.sent))
	close(r.sess.gate)
	verifapi.Quiesce()
}
