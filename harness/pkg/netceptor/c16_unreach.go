package netceptor

import (
	"github.com/ansible/receptor/internal/verifapi"
)

// C16 - senders learn when the target service does not exist; only the sender's socket learns it.

// Verif_C16_unknown_notice: a packet for this node whose service is unbound, or bound to a socket
// that was closed, or bound and open; from a remote or a local sender; optionally with a firewall
// rule that silently drops it.
func Verif_C16_unknown_notice() {
	n := verifNetceptor("A")
	s := n.s
	cb := n.verifConn("B", 1)
	from := []string{"A", "B", "Q"}[verifapi.Choose(3)]
	s.AddNameHash("Q")
	s.routingTable["B"] = "B"
	s.routingTable["Q"] = "B"
	fs := verifService()
	verifapi.Assume(verifapi.All(fs != "unreach", fs != "ping"))
	state := verifapi.Choose(3) // 0 nothing bound, 1 bound and open, 2 bound but closed
	var sock *verifSock
	if state != 0 {
		sock = n.verifListener("svc")
		if state == 2 {
			sock.pc.cancel()
		}
	}
	other := n.verifListener("oth")
	ts := "svc"
	switch verifapi.Choose(3) {
	case 1:
		ts = verifName1() // some other service name nobody listens on
	case 2: // a name that differs from a reserved one only by letter case is an ordinary name nobody listens on
		ts = []string{"Ping", "PING", "Unreach", "pinG"}[verifapi.Choose(4)]
	}
	drop := verifapi.Bool()
	if drop {
		s.firewallRules = []FirewallRuleFunc{func(*MessageData) FirewallResult { return FirewallResultDrop }}
	}
	md := &MessageData{FromNode: from, ToNode: "A", FromService: fs, ToService: ts, HopsToLive: verifapi.Byte(), Data: verifapi.BytesUpTo(1)}
	err := s.handleMessageData(md)
	verifapi.Quiesce()
	out := verifTake(cb)
	verifapi.Assert("unrelated-socket-never-gets-it", len(*other.got) == 0)
	if drop {
		verifapi.Cover("dropped-by-policy")
		verifapi.Assert("policy-drop-is-silent", verifapi.All(len(out) == 0, err == nil))
		if sock != nil {
			verifapi.Assert("policy-drop-not-delivered", len(*sock.got) == 0)
		}
		return
	}
	if state == 1 && ts == "svc" {
		verifapi.Cover("delivered")
		verifapi.Assert("bound-service-gets-packet-once", len(*sock.got) == 1)
		verifapi.Assert("no-notice-for-bound-service", verifapi.All(len(out) == 0, err == nil))
		return
	}
	if sock != nil {
		verifapi.Assert("closed-or-other-socket-gets-nothing", len(*sock.got) == 0)
	}
	if from == "A" {
		verifapi.Cover("local-sender-told")
		verifapi.Assert("local-sender-gets-error", err != nil && err.Error() == ProblemServiceUnknown)
		verifapi.Assert("local-sender-no-wire-traffic", len(out) == 0)
		return
	}
	verifapi.Cover("remote-sender-told")
	verifapi.Assert("exactly-one-notice", len(out) == 1)
	m, derr := s.translateDataToMessage(out[0])
	verifapi.Assert("notice-decodes", derr == nil)
	verifapi.Assert("notice-addressed-to-sender", verifapi.All(m.ToNode == from, m.ToService == "unreach", m.FromNode == "A", m.FromService == "unreach"))
	var um UnreachableMessage
	verifapi.Assert("notice-body-decodes", verifapi.FromJSON(m.Data, &um))
	verifapi.Assert("notice-names-original-addresses", verifapi.All(um.FromNode == from, um.ToNode == "A", um.FromService == fs, um.ToService == ts))
	verifapi.Assert("notice-says-service-unknown", um.Problem == ProblemServiceUnknown)
}

// Verif_C16_socket_filter: an unreachable notification arrives at a node with three open sockets
// (real ListenPacket sockets with their broker plumbing) and a pending dial that monitors one of
// them (the real monitorUnreachable). A socket's subscriber sees the notification iff the
// notification names this node and that socket's service as the original source; the dial is
// abandoned iff the notice says "service unknown" about exactly the dialled address.
func Verif_C16_socket_filter() {
	n := verifNetceptor("A")
	s := n.s
	names := []string{"s1", "s2", "s3"}
	var subs []chan UnreachableNotification
	var dones []chan struct{}
	var pcs []PacketConner
	for _, nm := range names {
		pc, err := s.ListenPacket(nm)
		verifapi.Assert("listen-ok", err == nil)
		done := make(chan struct{})
		pcs = append(pcs, pc)
		dones = append(dones, done)
	}
	// a dial from socket s1 to R:rs is being monitored
	cancelled := new(int)
	dialDone := make(chan struct{})
	go monitorUnreachable(pcs[0], dialDone, Addr{node: "R", service: "rs"}, func() { *cancelled++ })
	for i := range names {
		subs = append(subs, pcs[i].SubscribeUnreachable(dones[i]))
	}
	verifapi.Quiesce()
	um := &UnreachableMessage{FromNode: verifapi.String(1), FromService: verifapi.String(2), ToNode: verifapi.String(1), ToService: verifapi.String(2)}
	switch verifapi.Choose(4) {
	case 0:
		um.Problem = ProblemServiceUnknown
	case 1:
		um.Problem = ProblemExpiredInTransit
	case 2:
		um.Problem = ProblemRejected
	case 3:
		um.Problem = verifapi.String(1)
	}
	md := &MessageData{FromNode: verifName1(), ToNode: "A", FromService: "unreach", ToService: "unreach", HopsToLive: 5, Data: verifapi.JSON(um)}
	_ = s.handleMessageData(md)
	verifapi.Quiesce()
	for i, nm := range names {
		want := verifapi.All(um.FromNode == "A", um.FromService == nm)
		var got *UnreachableNotification
		select {
		case m := <-subs[i]:
			got = &m
		default:
		}
		if want {
			verifapi.Cover("sender-socket-notified")
			verifapi.Assert("sender-socket-sees-notice", got != nil)
			verifapi.Assert("notice-content-intact", verifapi.All(got.FromNode == um.FromNode, got.FromService == um.FromService, got.ToNode == um.ToNode,
				got.ToService == um.ToService, got.Problem == um.Problem, got.ReceivedFromNode == md.FromNode))
		} else {
			verifapi.Cover("other-socket-not-notified")
			verifapi.Assert("only-the-sender-socket-sees-notice", got == nil)
		}
	}
	verifapi.Quiesce()
	wantCancel := verifapi.All(um.FromNode == "A", um.FromService == "s1", um.Problem == ProblemServiceUnknown, um.ToNode == "R", um.ToService == "rs")
	if wantCancel {
		verifapi.Cover("dial-abandoned")
		verifapi.Assert("dial-abandoned-on-service-unknown", *cancelled >= 1)
	} else {
		verifapi.Cover("dial-continues")
		verifapi.Assert("dial-not-abandoned-by-unrelated-notice", *cancelled == 0)
	}
	// closing the sockets releases their names
	for _, pc := range pcs {
		_ = pc.Close()
	}
	close(dialDone)
	verifapi.Quiesce()
	verifapi.Assert("names-released", len(s.listenerRegistry) == 0)
	verifapi.Assert("no-lock-left-held", verifapi.HeldLocks() == 0)
}

// Verif_C16_two_notices: two datagrams were sent to the same dead service - from two different sockets
// of this node, or twice from the same socket - and both 'service unknown' notices come back, at
// arbitrary instants (the clock is arbitrary: microseconds or minutes apart). Every datagram's sender
// socket receives its own notice: two notices about one destination are two notices.
func Verif_C16_two_notices() {
	n := verifNetceptor("A")
	s := n.s
	names := []string{"s1", "s2"}
	var subs []chan UnreachableNotification
	var pcs []PacketConner
	for _, nm := range names {
		pc, err := s.ListenPacket(nm)
		verifapi.Assert("listen-ok", err == nil)
		pcs = append(pcs, pc)
		subs = append(subs, pc.SubscribeUnreachable(make(chan struct{})))
	}
	verifapi.Quiesce()
	second := names[verifapi.Choose(2)] // the socket behind the second datagram: the other one, or the same again
	counts := map[string]int{}
	for _, from := range []string{"s1", second} {
		um := &UnreachableMessage{FromNode: "A", FromService: from, ToNode: "R", ToService: "dead", Problem: ProblemServiceUnknown}
		md := &MessageData{FromNode: "R", ToNode: "A", FromService: "unreach", ToService: "unreach", HopsToLive: 5, Data: verifapi.JSON(um)}
		_ = s.handleMessageData(md)
		verifapi.Quiesce()
		for i, nm := range names {
			select {
			case m := <-subs[i]:
				counts[nm]++
				verifapi.Assert("notice-names-the-original-packet", verifapi.All(m.FromService == nm, m.ToNode == "R", m.ToService == "dead", m.Problem == ProblemServiceUnknown))
			default:
			}
		}
	}
	verifapi.Cover("two-notices-handled")
	want1, want2 := 1, 1
	if second == "s1" {
		want1, want2 = 2, 0
	}
	verifapi.Assert("every-datagram-s-sender-socket-gets-its-notice", verifapi.All(counts["s1"] == want1, counts["s2"] == want2))
	for _, pc := range pcs {
		_ = pc.Close()
	}
	verifapi.Quiesce()
	verifapi.Assert("no-lock-left-held", verifapi.HeldLocks() == 0)
}

// Verif_C16_notice_survives_an_unrelated_socket_closing: the sender's socket is slow to read its
// notices; four 'service unknown' notices for four of its datagrams arrive (the last ones are still
// being handed over inside the node), and at that moment an UNRELATED socket of the node is closed.
// When the sender finally reads, it finds one notice per datagram - a socket closing elsewhere on the
// node takes nothing away from it.
func Verif_C16_notice_survives_an_unrelated_socket_closing() {
	n := verifNetceptor("A")
	s := n.s
	sender, err := s.ListenPacket("s1")
	verifapi.Assert("listen-ok", err == nil)
	other, err := s.ListenPacket("s2")
	verifapi.Assert("listen-ok-2", err == nil)
	sub := sender.SubscribeUnreachable(make(chan struct{}))
	verifapi.Quiesce()
	for i := 0; i < 4; i++ {
		um := &UnreachableMessage{FromNode: "A", FromService: "s1", ToNode: "R", ToService: []string{"d0", "d1", "d2", "d3"}[i], Problem: ProblemServiceUnknown}
		md := &MessageData{FromNode: "R", ToNode: "A", FromService: "unreach", ToService: "unreach", HopsToLive: 5, Data: verifapi.JSON(um)}
		go func() { _ = s.handleMessageData(md) }()
		verifapi.Quiesce()
	}
	closed := make(chan bool, 1)
	go func() { _ = other.Close(); closed <- true }()
	verifapi.Quiesce()
	seen := map[string]int{}
	for i := 0; i < 8; i++ {
		select {
		case m := <-sub:
			seen[m.ToService]++
		default:
		}
		verifapi.Quiesce()
	}
	verifapi.Cover("sender-read-its-notices")
	verifapi.Assert("one-notice-per-datagram", verifapi.All(seen["d0"] == 1, seen["d1"] == 1, seen["d2"] == 1, seen["d3"] == 1))
	select {
	case <-closed:
	default:
		verifapi.Assert("unrelated-close-completes", false)
	}
	_ = sender.Close()
	verifapi.Quiesce()
	verifapi.Assert("no-lock-left-held", verifapi.HeldLocks() == 0)
}

// Verif_C16_notice_for_a_packet_that_came_over_the_wire: the datagram for the unbound service arrives as
// WIRE bytes from a neighbour (real decoder, then the real handler), with a service name of any length
// 0..8 - the empty name included: the neighbour is sent exactly one 'service unknown' notice naming the
// original source and destination.
func Verif_C16_notice_for_a_packet_that_came_over_the_wire() {
	sender := verifNetceptor("B")
	n := verifNetceptor("A")
	s := n.s
	cb := n.verifConn("B", 1)
	s.routingTable["B"] = "B"
	sender.s.AddNameHash("A")
	toService := verifService()
	orig := &MessageData{FromNode: "B", ToNode: "A", FromService: "src", ToService: toService, HopsToLive: 5, Data: []byte{1}}
	wire, err := sender.s.translateDataFromMessage(orig)
	verifapi.Assert("encoded", err == nil)
	md, derr := s.translateDataToMessage(wire)
	verifapi.Cover("wire-packet-decoded-or-not")
	verifapi.Assert("well-formed-packet-is-decoded-whatever-the-service-name", derr == nil && md != nil)
	_ = s.handleMessageData(md)
	verifapi.Quiesce()
	back := verifTake(cb)
	verifapi.Assert("one-notice-sent-back", len(back) == 1)
	if len(back) == 1 {
		nm, nerr := s.translateDataToMessage(back[0])
		um := &UnreachableMessage{}
		verifapi.Assert("notice-names-the-original-packet", verifapi.All(nerr == nil, nm.ToNode == "B", nm.ToService == "unreach",
			verifapi.FromJSON(nm.Data, um), um.Problem == ProblemServiceUnknown, um.FromNode == "B", um.FromService == "src", um.ToNode == "A", um.ToService == toService))
	}
}
