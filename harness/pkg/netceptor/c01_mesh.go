package netceptor

import (
	"context"
	"fmt"
	"io"
	"sync"
	"time"

	"github.com/ansible/receptor/internal/verifapi"
)

// C01 at the level of a small mesh: several real nodes, each running the real runProtocol (reader,
// writer, handshake) over in-memory sessions that deliver in order, flooding and recomputing through
// the real handlers. The two tick runners of a node are replaced by the harness pump below (a request
// is served at the next pump round; tickrunner.Run itself is decided by Verif_C01_tick_coalesce).
// Link costs are symbolic: one path of the harness covers every assignment of positive costs.

type verifPipe struct {
	in, out chan []byte
	closed  chan struct{}
	once    *sync.Once
}

func (p *verifPipe) Send(b []byte) error {
	select {
	case <-p.closed:
		return io.ErrClosedPipe
	default:
	}
	select {
	case p.out <- b:
		return nil
	case <-p.closed:
		return io.ErrClosedPipe
	}
}

func (p *verifPipe) Recv(time.Duration) ([]byte, error) {
	select {
	case b := <-p.in:
		return b, nil
	case <-p.closed:
		return nil, io.EOF
	}
}

func (p *verifPipe) Close() error {
	p.once.Do(func() { close(p.closed) })
	return nil
}

func verifPipePair() (*verifPipe, *verifPipe) {
	ab, ba := make(chan []byte, 64), make(chan []byte, 64)
	closed, once := make(chan struct{}), &sync.Once{}
	return &verifPipe{in: ba, out: ab, closed: closed, once: once}, &verifPipe{in: ab, out: ba, closed: closed, once: once}
}

type verifMesh struct {
	names []string
	nodes []*verifNode
	up    []bool
	link  [][]*verifPipe // link[i][j] = i's end of the session i<->j (nil = no link)
	cost  [][]float64
	epochs int
	rev    bool // serve the nodes' requests in reverse order
}

func verifNewMesh(names []string) *verifMesh {
	m := &verifMesh{names: names}
	k := len(names)
	for i := 0; i < k; i++ {
		m.nodes = append(m.nodes, verifNetceptor(names[i]))
		m.up = append(m.up, true)
		m.link = append(m.link, make([]*verifPipe, k))
		m.cost = append(m.cost, make([]float64, k))
	}
	for i := 0; i < k; i++ {
		for j := i + 1; j < k; j++ {
			c := verifapi.Float()
			verifapi.Assume(verifapi.All(c > 0, c <= 1000))
			m.cost[i][j], m.cost[j][i] = c, c
		}
	}
	return m
}

// connect starts a session between two live nodes (both ends run the real protocol loop).
func (m *verifMesh) connect(i, j int) {
	pi, pj := verifPipePair()
	m.link[i][j], m.link[j][i] = pi, pj
	ni, nj := m.nodes[i], m.nodes[j]
	go func() { _ = ni.s.runProtocol(ni.s.context, pi, &BackendInfo{connectionCost: m.cost[i][j]}) }()
	go func() { _ = nj.s.runProtocol(nj.s.context, pj, &BackendInfo{connectionCost: m.cost[i][j]}) }()
}

func (m *verifMesh) disconnect(i, j int) {
	if m.link[i][j] != nil {
		_ = m.link[i][j].Close()
		m.link[i][j], m.link[j][i] = nil, nil
	}
}

func (m *verifMesh) stop(i int) {
	m.nodes[i].s.cancelFunc()
	m.up[i] = false
	for j := range m.names {
		m.link[i][j], m.link[j][i] = nil, nil
	}
}

// restart brings node i back under the same ID with a newer epoch and an empty memory.
func (m *verifMesh) restart(i int) {
	n := verifNetceptor(m.names[i])
	m.epochs++
	n.s.epoch = 1000 + uint64(m.epochs)*1000
	m.nodes[i] = n
	m.up[i] = true
}

// settle serves the nodes' flood and table requests until nobody asks for anything any more.
func (m *verifMesh) settle() {
	for round := 0; round < 16; round++ {
		verifapi.Quiesce()
		busy := false
		for k := range m.nodes {
			i := k
			if m.rev {
				i = len(m.nodes) - 1 - k
			}
			n := m.nodes[i]
			if !m.up[i] {
				continue
			}
			if len(*n.adReqs) > 0 {
				*n.adReqs = nil
				n.s.sendServiceAds()
				busy = true
				verifapi.Quiesce()
			}
			if len(*n.floodReqs) > 0 {
				*n.floodReqs = nil
				n.s.sendRoutingUpdate(0)
				busy = true
				verifapi.Quiesce()
			}
			if len(*n.tableReqs) > 0 {
				*n.tableReqs = nil
				n.s.updateRoutingTable()
				busy = true
				verifapi.Quiesce()
			}
		}
		if !busy {
			return
		}
	}
	verifapi.Assert("mesh-settles-after-the-last-event", false)
}

// period is one route-update period: every live node floods its adjacency.
func (m *verifMesh) period() {
	for i, n := range m.nodes {
		if m.up[i] {
			n.s.sendRoutingUpdate(0)
			verifapi.Quiesce()
		}
	}
	m.settle()
}

// adPeriod is one service-advertisement period: every live node re-advertises its open services.
func (m *verifMesh) adPeriod() {
	for i, n := range m.nodes {
		if m.up[i] {
			n.s.sendServiceAds()
			verifapi.Quiesce()
		}
	}
	m.settle()
}

// check compares every live node's table with the reference over the live topology.
func (m *verifMesh) check(tag string) {
	k := len(m.names)
	g := &verifGraph{names: m.names}
	for i := 0; i < k; i++ {
		g.has = append(g.has, make([]bool, k))
		g.cost = append(g.cost, make([]float64, k))
		for j := 0; j < k; j++ {
			g.has[i][j] = m.link[i][j] != nil
			g.cost[i][j] = m.cost[i][j]
		}
	}
	all := make([][]float64, k)
	for i := 0; i < k; i++ {
		all[i] = g.dist(i)
	}
	for i := 0; i < k; i++ {
		if !m.up[i] {
			continue
		}
		s := m.nodes[i].s
		for j := 0; j < k; j++ {
			if j == i {
				continue
			}
			_, conn := s.connections[m.names[j]]
			verifapi.Assert(tag+":connections-are-the-live-links", conn == g.has[i][j])
			hop, listed := s.routingTable[m.names[j]]
			reachable := all[i][j] < verifInf
			verifapi.Assert(tag+":listed-iff-reachable", listed == reachable)
			if !listed {
				continue
			}
			verifapi.Cover(tag + ":route-present")
			verifapi.Assert(tag+":reported-cost-is-least-cost", s.routingPathCosts[m.names[j]] == all[i][j])
			ok := false
			for h := 0; h < k; h++ {
				if hop == m.names[h] {
					ok = true
					verifapi.Assert(tag+":next-hop-is-a-live-neighbour", g.has[i][h])
					verifapi.Assert(tag+":next-hop-lies-on-a-least-cost-path", g.cost[i][h]+all[h][j] == all[i][j])
				}
			}
			verifapi.Assert(tag+":next-hop-is-a-node-of-the-mesh", ok)
		}
	}
}

func verifMeshIDs() {
	ids := make([]string, 0, 400)
	for i := 0; i < 400; i++ {
		ids = append(ids, fmt.Sprintf("upd%05d", i))
	}
	verifapi.FixRandom(ids...)
}

// Verif_C01_mesh_converges: three real nodes, every initial topology over them (any subset of the
// three links, arbitrary positive costs), brought up link by link, followed by one topology event of
// every kind (a link lost, a link added, a node stopped, a node restarted under its old name and
// re-attached link by link). After the event, the pending requests and two route-update periods, every
// live node's table equals the independent least-cost computation over the live topology.
func Verif_C01_mesh_converges() {
	verifapi.SelectFork(false)
	verifMeshIDs()
	m := verifNewMesh([]string{"A", "B", "C"})
	if verifapi.Tier() == 1 {
		m.rev = verifapi.Bool()
	}
	pairs := [][2]int{{0, 1}, {1, 2}, {0, 2}}
	present := []bool{verifapi.Bool(), verifapi.Bool(), verifapi.Bool()}
	for p, pr := range pairs {
		if present[p] {
			m.connect(pr[0], pr[1])
			m.settle()
		}
	}
	m.period()
	verifapi.Cover("initial-topology-up")
	m.check("start")
	events := 1
	if verifapi.Tier() == 1 {
		events = 2
	}
	for e := 0; e < events; e++ {
		switch verifapi.Choose(5) {
		case 0: // nothing happens
		case 1: // a link is lost
			p := verifapi.Choose(3)
			verifapi.Assume(m.link[pairs[p][0]][pairs[p][1]] != nil)
			m.disconnect(pairs[p][0], pairs[p][1])
		case 2: // a link is added between two live nodes
			p := verifapi.Choose(3)
			verifapi.Assume(verifapi.All(m.link[pairs[p][0]][pairs[p][1]] == nil, m.up[pairs[p][0]], m.up[pairs[p][1]]))
			m.connect(pairs[p][0], pairs[p][1])
		case 3: // a node stops
			x := verifapi.Choose(3)
			verifapi.Assume(m.up[x])
			m.stop(x)
		case 4: // a node restarts (or comes back) under its old name and re-attaches its links one after the other
			x := verifapi.Choose(3)
			had := []bool{m.link[x][0] != nil, m.link[x][1] != nil, m.link[x][2] != nil}
			if m.up[x] {
				m.stop(x)
				m.settle()
			} else {
				had = []bool{m.up[0], m.up[1], m.up[2]}
				had[x] = false
			}
			m.restart(x)
			for j := 0; j < 3; j++ {
				if had[j] {
					m.connect(x, j)
					m.settle()
				}
			}
		}
		m.settle()
	}
	m.settle()
	m.period()
	m.period()
	verifapi.Cover("after-the-event")
	m.check("end")
	for i := range m.nodes {
		if m.up[i] {
			m.nodes[i].s.cancelFunc()
		}
	}
	verifapi.Quiesce()
	verifapi.Assert("no-lock-left-held", verifapi.HeldLocks() == 0)
	_ = context.Background
}
