package netceptor

import (
	"io"
	"context"
	"crypto/tls"
	"fmt"
	"net"
	"time"

	"github.com/ansible/receptor/internal/verifapi"
	"github.com/quic-go/quic-go"
)

// C17 - sockets, listeners and streams close at any time without crash or leak.

// Verif_C17_repeated_close: a datagram socket (advertising or not) is closed once, twice or three
// times, with a packet for it arriving afterwards: no panic, the service name is released (it can be
// bound again), the service is no longer listed, a late packet is answered with "service unknown".
func Verif_C17_repeated_close() {
	n := verifNetceptor("A")
	s := n.s
	cb := n.verifConn("B", 1)
	s.routingTable["B"] = "B"
	adv := verifapi.Bool()
	var pc PacketConner
	var err error
	if adv {
		pc, err = s.ListenPacketAndAdvertise("svc", map[string]string{"k": "v"})
	} else {
		pc, err = s.ListenPacket("svc")
	}
	verifapi.Assert("bound", err == nil)
	verifapi.Quiesce()
	verifTake(cb)
	times := 1 + verifapi.Choose(3)
	verifapi.Known("repeated-close-of-advertising-socket", adv && times > 1)
	for i := 0; i < times; i++ {
		_ = pc.Close()
	}
	verifapi.Quiesce()
	verifapi.Cover("closed")
	_, bound := s.listenerRegistry["svc"]
	verifapi.Assert("service-name-released", !bound)
	_, listed := s.GetServiceInfo("A", "svc")
	verifapi.Assert("closed-service-not-listed", !listed)
	verifTake(cb)
	// a late packet for the closed socket
	_ = s.handleMessageData(&MessageData{FromNode: "B", ToNode: "A", FromService: "x", ToService: "svc", HopsToLive: 3, Data: []byte{1}})
	verifapi.Quiesce()
	out := verifTake(cb)
	verifapi.Assert("late-packet-answered-service-unknown", len(out) == 1)
	// the name can be bound again
	pc2, err := s.ListenPacket("svc")
	verifapi.Assert("name-can-be-bound-again", err == nil && pc2 != nil)
	_ = pc2.Close()
	verifapi.Quiesce()
	verifapi.Assert("no-lock-left-held", verifapi.HeldLocks() == 0)
	// shutting the node down stops the socket's helper goroutines
	s.cancelFunc()
	verifapi.Quiesce()
	verifapi.Assert("all-background-activity-stopped", verifapi.Blocked())
}

// Verif_C17_close_vs_deliveries: two packets for a socket are being delivered by two sessions (nobody
// is reading) while the socket is closed, under every schedule within the pre-emption bound: no panic
// (in particular no double close of the delivery channel), every deliverer returns, the name is released.
func Verif_C17_close_vs_deliveries() {
	n := verifNetceptor("A")
	s := n.s
	n.verifConn("B", 1)
	s.routingTable["B"] = "B"
	pc, err := s.ListenPacket("svc")
	verifapi.Assert("bound", err == nil)
	verifapi.Quiesce()
	withReader := verifapi.Bool()
	verifapi.ExploreSchedules(2 + verifapi.Tier())
	done := make(chan bool, 4)
	for i := 0; i < 2; i++ {
		go func() {
			_ = s.handleMessageData(&MessageData{FromNode: "B", ToNode: "A", FromService: "x", ToService: "svc", HopsToLive: 3, Data: []byte{1}})
			done <- true
		}()
	}
	if withReader {
		go func() {
			buf := make([]byte, 4)
			_, _, _ = pc.ReadFrom(buf)
			done <- true
		}()
	}
	go func() {
		_ = pc.Close()
		done <- true
	}()
	want := 3
	if withReader {
		want = 4
	}
	for i := 0; i < want; i++ {
		<-done
	}
	verifapi.ExploreSchedules(0)
	verifapi.Cover("all-returned")
	_, bound := s.listenerRegistry["svc"]
	verifapi.Assert("service-name-released", !bound)
	verifapi.Assert("no-lock-left-held", verifapi.HeldLocks() == 0)
}

// ---- stream connections over a stubbed QUIC transport ----

type verifQStream struct {
	quic.Stream
	closed *int
	wrote  *[]byte
	in     []byte // what the peer sends, followed by its end of stream (only if eof is set)
	eof    bool
	pos    int
	sctx   context.Context // as in quic-go: cancelled as soon as the write side is closed
	scancel context.CancelFunc
}

func (q *verifQStream) Write(b []byte) (int, error) { *q.wrote = append(*q.wrote, b...); return len(b), nil }
func (q *verifQStream) Read(b []byte) (int, error) {
	if q.pos < len(q.in) {
		n := copy(b, q.in[q.pos:])
		q.pos += n
		return n, nil
	}
	if q.eof {
		return 0, io.EOF
	}
	return 0, fmt.Errorf("closed")
}
func (q *verifQStream) Close() error {
	*q.closed++
	if q.scancel != nil {
		q.scancel()
	}
	return nil
}
func (q *verifQStream) Context() context.Context {
	if q.sctx == nil {
		q.sctx, q.scancel = context.WithCancel(context.Background())
	}
	return q.sctx
}

type verifQConn struct {
	quic.Connection
	ctx     context.Context
	cancel  context.CancelFunc
	stream  *verifQStream
	openErr bool
	remote  net.Addr
}

func (q *verifQConn) OpenStreamSync(ctx context.Context) (quic.Stream, error) {
	if q.openErr {
		return nil, fmt.Errorf("stream refused")
	}
	return q.stream, nil
}
func (q *verifQConn) Context() context.Context { return q.ctx }
func (q *verifQConn) CloseWithError(code quic.ApplicationErrorCode, msg string) error {
	q.cancel()
	return nil
}
func (q *verifQConn) RemoteAddr() net.Addr { return q.remote }
func (q *verifQConn) LocalAddr() net.Addr  { return q.remote }

// Verif_C17_dial_releases_socket: a stream dial (QUIC transport stubbed) that fails at the handshake,
// fails when opening the stream, or succeeds and is then closed by the application (half close
// followed by connection close, or connection close alone) and by the peer. On every path the ephemeral
// datagram socket the dial created is released: its service name leaves the registry and, once the node
// is shut down, nothing of it keeps running.
func Verif_C17_dial_releases_socket() {
	n := verifNetceptor("A")
	s := n.s
	n.verifConn("B", 1)
	s.routingTable["B"] = "B"
	outcome := verifapi.Choose(3) // 0 handshake fails, 1 stream open fails, 2 success
	qctx, qcancel := context.WithCancel(context.Background())
	qc := &verifQConn{ctx: qctx, cancel: qcancel, stream: &verifQStream{closed: new(int), wrote: &[]byte{}}, openErr: outcome == 1, remote: Addr{node: "B", service: "svc"}}
	verifapi.Redirect("(*github.com/quic-go/quic-go.Transport).Dial", func(t *quic.Transport, ctx context.Context, addr net.Addr, tlsConf *tls.Config, conf *quic.Config) (quic.Connection, error) {
		if outcome == 0 {
			return nil, fmt.Errorf("handshake failed")
		}
		return qc, nil
	})
	verifapi.FixRandom("ephem001")
	before := len(s.listenerRegistry)
	conn, err := s.DialContext(context.Background(), "B", "svc", nil)
	verifapi.Quiesce()
	if outcome != 2 {
		verifapi.Cover("dial-failed")
		verifapi.Assert("failed-dial-reports-error", err != nil && conn == nil)
		verifapi.Assert("failed-dial-releases-its-socket", len(s.listenerRegistry) == before)
	} else {
		verifapi.Cover("dial-succeeded")
		verifapi.Assert("dial-ok", err == nil && conn != nil)
		verifapi.Assert("first-byte-sent-to-trigger-accept", len(*qc.stream.wrote) == 1 && (*qc.stream.wrote)[0] == 0)
		verifapi.Assert("socket-in-use-while-connected", len(s.listenerRegistry) == before+1)
		how := verifapi.Choose(4)
		verifapi.Known("ephemeral-socket-kept-after-local-close", how != 3)
		switch how {
		case 0: // the application half-closes, later closes the connection
			_ = conn.Close()
			verifapi.Quiesce()
			_ = conn.CloseConnection()
		case 1: // connection close alone
			_ = conn.CloseConnection()
		case 2: // half close, then the peer / idle timeout ends the QUIC connection
			_ = conn.Close()
			verifapi.Quiesce()
			qcancel()
		case 3: // the peer ends the QUIC connection, then the application closes
			qcancel()
			verifapi.Quiesce()
			_ = conn.Close()
		}
		verifapi.Quiesce()
		verifapi.Assert("closed-connection-releases-its-socket", len(s.listenerRegistry) == before)
	}
	s.cancelFunc()
	verifapi.Quiesce()
	verifapi.Assert("all-background-activity-stopped", verifapi.Blocked())
	verifapi.Assert("no-lock-left-held", verifapi.HeldLocks() == 0)
	_ = time.Second
}

// Verif_C17_open_during_shutdown: the node is shut down (its context is cancelled) at any point
// while a datagram socket is being opened and closed again, every schedule within the pre-emption
// bound and every choice of a select with several ready cases: nothing panics and, afterwards,
// everything has stopped.
func Verif_C17_open_during_shutdown() {
	n := verifNetceptor("A")
	s := n.s
	verifapi.Quiesce()
	verifapi.ExploreSchedules(1 + verifapi.Tier())
	verifapi.GoLow(func() { s.cancelFunc() })
	pc, err := s.ListenPacket("svc")
	if err == nil && pc != nil {
		_ = pc.Close()
	}
	verifapi.Quiesce()
	verifapi.ExploreSchedules(0)
	s.cancelFunc()
	verifapi.Quiesce()
	verifapi.Cover("shut-down")
	_, bound := s.listenerRegistry["svc"]
	verifapi.Assert("service-name-released", !bound)
	verifapi.Assert("all-background-activity-stopped", verifapi.Blocked())
	verifapi.Assert("no-lock-left-held", verifapi.HeldLocks() == 0)
}

// Verif_C17_close_with_notices_pending: a socket whose owner subscribed to unreachable notices but is
// slow to take them: two notices for it arrive (the second is still being handed over), then the
// subscription is given up and the socket closed - at any point within the pre-emption bound. Nothing
// panics, the name is released, and after shutdown nothing keeps running.
func Verif_C17_close_with_notices_pending() {
	n := verifNetceptor("A")
	s := n.s
	pc, err := s.ListenPacket("s1")
	verifapi.Assert("listen-ok", err == nil)
	done := make(chan struct{})
	sub := pc.SubscribeUnreachable(done)
	verifapi.Quiesce()
	verifapi.ExploreSchedules(verifapi.Tier())
	for i := 0; i < 2; i++ {
		um := &UnreachableMessage{FromNode: "A", FromService: "s1", ToNode: "R", ToService: "dead", Problem: ProblemServiceUnknown}
		md := &MessageData{FromNode: "R", ToNode: "A", FromService: "unreach", ToService: "unreach", HopsToLive: 5, Data: verifapi.JSON(um)}
		go func() { _ = s.handleMessageData(md) }()
	}
	if verifapi.Bool() {
		verifapi.Quiesce()
	}
	close(done)
	if verifapi.Bool() {
		verifapi.Quiesce() // the subscription is given up some time before the socket is closed
	}
	_ = pc.Close()
	verifapi.Quiesce()
	verifapi.ExploreSchedules(0)
	verifapi.Cover("closed-with-notices-pending")
	_, bound := s.listenerRegistry["s1"]
	verifapi.Assert("service-name-released", !bound)
	s.cancelFunc()
	verifapi.Quiesce()
	// the owner finally looks at its subscription: it is ended, not stuck
	for range sub {
	}
	verifapi.Quiesce()
	verifapi.Assert("all-background-activity-stopped", verifapi.Blocked())
	verifapi.Assert("no-lock-left-held", verifapi.HeldLocks() == 0)
}

// Verif_C17_failed_dial_leaves_nothing_behind: a stream dial that fails (handshake refused, stream
// refused, or the dial context cancelled by the caller) - nobody ever gets a Conn to close. Afterwards
// the node runs exactly the goroutines it ran before the dial: no subscription, monitor or socket
// goroutine of the failed dial is left behind, and the ephemeral service name is free again.
func Verif_C17_failed_dial_leaves_nothing_behind() {
	n := verifNetceptor("A")
	s := n.s
	n.verifConn("B", 1)
	s.routingTable["B"] = "B"
	verifapi.Quiesce()
	how := verifapi.Choose(2) // 0 handshake fails, 1 stream open fails
	qctx, qcancel := context.WithCancel(context.Background())
	qc := &verifQConn{ctx: qctx, cancel: qcancel, stream: &verifQStream{closed: new(int), wrote: &[]byte{}}, openErr: how == 1, remote: Addr{node: "B", service: "svc"}}
	verifapi.Redirect("(*github.com/quic-go/quic-go.Transport).Dial", func(t *quic.Transport, ctx context.Context, addr net.Addr, tlsConf *tls.Config, conf *quic.Config) (quic.Connection, error) {
		verifapi.Quiesce() // a handshake takes time: the dial's monitor goroutines are up and subscribed by now
		if how == 0 {
			return nil, fmt.Errorf("handshake failed")
		}
		return qc, nil
	})
	verifapi.FixRandom("ephem007")
	before := verifapi.LiveGoroutines()
	names := len(s.listenerRegistry)
	conn, err := s.DialContext(context.Background(), "B", "svc", nil)
	verifapi.Quiesce()
	verifapi.Cover("dial-failed")
	verifapi.Assert("failed-dial-reports-error", err != nil && conn == nil)
	verifapi.Assert("failed-dial-releases-its-socket", len(s.listenerRegistry) == names)
	verifapi.Assert("no-goroutine-left-behind", verifapi.LiveGoroutines() == before)
	s.cancelFunc()
	verifapi.Quiesce()
}

// Verif_C17_listener_closed_with_unaccepted_connections: a stream listener (QUIC stubbed) has a
// connection that completed its handshake but that the application has not taken with Accept yet; the
// listener is closed. Nobody owns that connection, so the listener's close ends it: afterwards the node
// runs exactly the goroutines it ran before the listener was opened, and the service name is free.
func Verif_C17_listener_closed_with_unaccepted_connections() {
	n := verifNetceptor("A")
	verifapi.Quiesce()
	st := &verifScriptStream{in: []byte{0, 9}, out: &[]byte{}, closed: new(int)}
	qctx, qcancel := context.WithCancel(context.Background())
	qc := &verifAcceptConn{verifQConn: verifQConn{ctx: qctx, cancel: qcancel, remote: Addr{node: "B", service: "x"}}, st: st}
	handed := false
	verifapi.Redirect("(*github.com/quic-go/quic-go.Transport).Listen", func(t *quic.Transport, tlsConf *tls.Config, conf *quic.Config) (*quic.Listener, error) {
		return new(quic.Listener), nil
	})
	verifapi.Redirect("(*github.com/quic-go/quic-go.Listener).Accept", func(l *quic.Listener, ctx context.Context) (quic.Connection, error) {
		if !handed {
			handed = true
			return qc, nil
		}
		<-ctx.Done()
		return nil, ctx.Err()
	})
	verifapi.Redirect("(*github.com/quic-go/quic-go.Listener).Close", func(l *quic.Listener) error { return nil })
	verifapi.Redirect("github.com/ansible/receptor/pkg/netceptor.generateServerTLSConfig", func() *tls.Config { return &tls.Config{} })
	before := verifapi.LiveGoroutines()
	names := len(n.s.listenerRegistry)
	ctx, cancel := context.WithCancel(context.Background())
	li, err := n.s.listen(ctx, "svc", nil, false, nil)
	verifapi.Assert("listening", err == nil && li != nil)
	verifapi.Quiesce()
	verifapi.Assert("a-connection-is-waiting-to-be-accepted", handed)
	_ = li.Close()
	cancel()
	verifapi.Quiesce()
	verifapi.Cover("listener-closed")
	verifapi.Assert("service-name-released", len(n.s.listenerRegistry) == names)
	verifapi.Assert("no-goroutine-left-behind", verifapi.LiveGoroutines() == before)
	n.s.cancelFunc()
	verifapi.Quiesce()
}

// Verif_C17_notice_burst_leaves_nothing_behind: a connection's unreachable monitor (the real
// monitorUnreachable on a real socket) gets a BURST: two matching 'service unknown' notices (every
// retransmitted packet is answered). The connection is abandoned after the first one; then the
// subscription is given up, the socket closed and the node shut down. No goroutine of the socket's
// notification plumbing is left parked on the second notice.
func Verif_C17_notice_burst_leaves_nothing_behind() {
	n := verifNetceptor("A")
	s := n.s
	verifapi.Quiesce()
	before := verifapi.LiveGoroutines()
	pc, err := s.ListenPacket("s1")
	verifapi.Assert("listen-ok", err == nil)
	done := make(chan struct{})
	cancelled := 0
	go monitorUnreachable(pc, done, Addr{node: "R", service: "dead"}, func() { cancelled++ })
	verifapi.Quiesce()
	for i := 0; i < 2; i++ {
		um := &UnreachableMessage{FromNode: "A", FromService: "s1", ToNode: "R", ToService: "dead", Problem: ProblemServiceUnknown}
		md := &MessageData{FromNode: "R", ToNode: "A", FromService: "unreach", ToService: "unreach", HopsToLive: 5, Data: verifapi.JSON(um)}
		go func() { _ = s.handleMessageData(md) }()
		verifapi.Quiesce()
	}
	verifapi.Assert("connection-abandoned-on-the-notice", cancelled >= 1)
	close(done)
	verifapi.Quiesce()
	_ = pc.Close()
	verifapi.Quiesce()
	verifapi.Cover("socket-closed-after-a-burst")
	_, bound := s.listenerRegistry["s1"]
	verifapi.Assert("service-name-released", !bound)
	verifapi.Assert("no-goroutine-left-behind", verifapi.LiveGoroutines() == before)
	s.cancelFunc()
	verifapi.Quiesce()
}
