package netceptor

import (
	"time"
	"net"
	"io"
	"context"
	"crypto/tls"
	"fmt"
	"sync"

	"github.com/ansible/receptor/internal/verifapi"
	"github.com/quic-go/quic-go"
)

// C03 - the glue receptor puts around a QUIC stream (QUIC's own reliability is trusted, not decided).

type verifScriptStream struct {
	quic.Stream
	in      []byte
	pos     int
	out     *[]byte
	closed  *int
	readErr bool
}

func (q *verifScriptStream) Read(b []byte) (int, error) {
	if q.readErr {
		return 0, fmt.Errorf("stream reset")
	}
	if q.pos >= len(q.in) {
		return 0, fmt.Errorf("EOF")
	}
	n := copy(b, q.in[q.pos:])
	q.pos += n
	return n, nil
}
func (q *verifScriptStream) Write(b []byte) (int, error) { *q.out = append(*q.out, b...); return len(b), nil }
func (q *verifScriptStream) Close() error                { *q.closed++; return nil }

type verifAcceptConn struct {
	verifQConn
	st *verifScriptStream
}

func (q *verifAcceptConn) AcceptStream(ctx context.Context) (quic.Stream, error) { return q.st, nil }

// Verif_C03_conn_glue: a Conn wrapped around a stream hands reads and writes through unchanged and in
// order; Close is a half close of the stream (not of the QUIC connection), can be repeated, and
// signals the connection's monitors exactly once.
func Verif_C03_conn_glue() {
	data := verifapi.BytesUpTo(3)
	st := &verifScriptStream{in: data, out: &[]byte{}, closed: new(int)}
	qctx, qcancel := context.WithCancel(context.Background())
	qc := &verifQConn{ctx: qctx, cancel: qcancel}
	c := &Conn{qs: st, qc: qc, doneChan: make(chan struct{}, 1), doneOnce: &sync.Once{}}
	buf := make([]byte, 4)
	n, err := c.Read(buf)
	if len(data) == 0 {
		verifapi.Assert("empty-stream-reports-end", n == 0 && err != nil)
	} else {
		verifapi.Assert("read-hands-stream-bytes-through", verifapi.All(err == nil, n == len(data), verifapi.SameBytes(buf[:n], data)))
	}
	w := verifapi.BytesUpTo(2)
	wn, werr := c.Write(w)
	verifapi.Assert("write-hands-bytes-through", verifapi.All(werr == nil, wn == len(w), verifapi.SameBytes(*st.out, w)))
	_ = c.Close()
	_ = c.Close()
	verifapi.Cover("closed")
	verifapi.Assert("close-is-a-half-close-of-the-stream", *st.closed == 2 && qctx.Err() == nil)
	select {
	case <-c.doneChan:
	default:
		verifapi.Assert("close-signals-monitors", false)
	}
}

// Verif_C03_accept_first_byte: the accepting side (real listen() and acceptLoop over a stubbed QUIC
// listener) hands a connection to Accept iff the first byte on the stream is the single 0 byte the
// dialling side writes (see Verif_C17_dial_releases_socket: first-byte-sent-to-trigger-accept); the
// marker byte is consumed, the application data that follows is read unchanged.
func Verif_C03_accept_first_byte() {
	n := verifNetceptor("A")
	first := verifapi.Byte()
	payload := verifapi.BytesUpTo(2)
	readErr := verifapi.Bool()
	st := &verifScriptStream{in: append([]byte{first}, payload...), out: &[]byte{}, closed: new(int), readErr: readErr}
	qctx, qcancel := context.WithCancel(context.Background())
	qc := &verifAcceptConn{verifQConn: verifQConn{ctx: qctx, cancel: qcancel, remote: Addr{node: "B", service: "x"}}, st: st}
	handed := false
	verifapi.Redirect("(*github.com/quic-go/quic-go.Transport).Listen", func(t *quic.Transport, tlsConf *tls.Config, conf *quic.Config) (*quic.Listener, error) {
		return new(quic.Listener), nil
	})
	verifapi.Redirect("(*github.com/quic-go/quic-go.Listener).Accept", func(l *quic.Listener, ctx context.Context) (quic.Connection, error) {
		if !handed {
			handed = true
			return qc, nil
		}
		<-ctx.Done()
		return nil, ctx.Err()
	})
	verifapi.Redirect("(*github.com/quic-go/quic-go.Listener).Close", func(l *quic.Listener) error { return nil })
	verifapi.Redirect("github.com/ansible/receptor/pkg/netceptor.generateServerTLSConfig", func() *tls.Config { return &tls.Config{} })
	ctx, cancel := context.WithCancel(context.Background())
	li, err := n.s.listen(ctx, "svc", nil, false, nil)
	verifapi.Assert("listening", err == nil && li != nil)
	verifapi.Quiesce()
	var got *acceptResult
	select {
	case r := <-li.acceptChan:
		got = r
	default:
	}
	verifapi.Cover("accept-attempted")
	ok := !readErr && first == 0
	verifapi.Assert("something-is-reported-to-accept", got != nil)
	if ok {
		verifapi.Cover("accepted")
		verifapi.Assert("stream-with-marker-accepted", got.err == nil && got.conn != nil)
		buf := make([]byte, 4)
		rn, _ := got.conn.Read(buf)
		verifapi.Assert("marker-consumed-payload-intact", verifapi.All(rn == len(payload), verifapi.SameBytes(buf[:rn], payload)))
		// while the stream is up, notices about packets to the peer arrive (e.g. during re-routing): only
		// "service unknown" for exactly the peer's address may end the stream; "message expired" must not
		problem := []string{ProblemExpiredInTransit, ProblemRejected, ProblemServiceUnknown}[verifapi.Choose(3)]
		um := &UnreachableMessage{FromNode: "A", FromService: "svc", ToNode: "B", ToService: "x", Problem: problem}
		_ = n.s.handleMessageData(&MessageData{FromNode: "M", ToNode: "A", FromService: "unreach", ToService: "unreach", HopsToLive: 5, Data: verifapi.JSON(um)})
		verifapi.Quiesce()
		if problem == ProblemServiceUnknown {
			verifapi.Assert("stream-ended-when-peer-service-is-gone", *st.closed >= 1)
		} else {
			verifapi.Cover("transient-notice")
			verifapi.Assert("stream-survives-transient-routing-notices", *st.closed == 0)
		}
	} else {
		verifapi.Cover("refused")
		verifapi.Assert("stream-without-marker-refused", got.err != nil && got.conn == nil)
		verifapi.Assert("refused-connection-closed", qctx.Err() != nil)
	}
	cancel()
	_ = li.Close()
	n.s.cancelFunc()
	verifapi.Quiesce()
}

// Verif_C03_dialled_conn_peer_finishes_first: a connection made by the real DialContext (QUIC stubbed):
// the dialler writes its data and closes its writing side; the peer had answered and finished writing
// before consuming that data, so the dialler reads the answer and then the peer's end of stream. What
// the dialler wrote went to the stream unchanged, the answer is read unchanged followed by end of
// stream, and reading it does not end the QUIC connection the dialler's own data are still travelling
// on - only CloseConnection (or the peer, or the idle timeout) does.
func Verif_C03_dialled_conn_peer_finishes_first() {
	n := verifNetceptor("A")
	s := n.s
	n.verifConn("B", 1)
	s.routingTable["B"] = "B"
	answer := verifapi.BytesUpTo(2)
	qctx, qcancel := context.WithCancel(context.Background())
	st := &verifQStream{closed: new(int), wrote: &[]byte{}, in: answer, eof: true}
	_ = st.Context()
	qc := &verifQConn{ctx: qctx, cancel: qcancel, stream: st, remote: Addr{node: "B", service: "svc"}}
	verifapi.Redirect("(*github.com/quic-go/quic-go.Transport).Dial", func(t *quic.Transport, ctx context.Context, addr net.Addr, tlsConf *tls.Config, conf *quic.Config) (quic.Connection, error) {
		return qc, nil
	})
	verifapi.FixRandom("ephem003")
	// the usual helper idiom: a context that only bounds the DIAL and is released when the helper returns
	dctx, dcancel := context.WithCancel(context.Background())
	conn, err := s.DialContext(dctx, "B", "svc", nil)
	verifapi.Assert("dial-ok", err == nil && conn != nil)
	if verifapi.Bool() {
		dcancel()
		verifapi.Quiesce()
		verifapi.Cover("dial-context-released-after-the-dial")
		verifapi.Assert("releasing-the-dial-context-does-not-end-an-established-stream", verifapi.All(qctx.Err() == nil, *st.closed == 0))
	}
	data := verifapi.BytesUpTo(2)
	wn, werr := conn.Write(data)
	verifapi.Assert("written-bytes-reach-the-stream-unchanged", verifapi.All(werr == nil, wn == len(data), verifapi.SameBytes((*st.wrote)[1:], data)))
	closeFirst := verifapi.Bool()
	if closeFirst {
		_ = conn.Close()
	}
	var got []byte
	buf := make([]byte, 4)
	var rerr error
	for i := 0; i < 4 && rerr == nil; i++ {
		var rn int
		rn, rerr = conn.Read(buf)
		got = append(got, buf[:rn]...)
	}
	if !closeFirst {
		_ = conn.Close()
	}
	verifapi.Quiesce()
	verifapi.Cover("answer-read-to-end-of-stream")
	verifapi.Assert("answer-read-unchanged-then-end-of-stream", verifapi.All(rerr == io.EOF, verifapi.SameBytes(got, answer)))
	verifapi.Assert("half-close-and-end-of-stream-do-not-end-the-connection", qctx.Err() == nil)
	_ = conn.CloseConnection()
	verifapi.Quiesce()
	verifapi.Assert("connection-close-ends-the-connection", qctx.Err() != nil)
	s.cancelFunc()
	dcancel()
	verifapi.Quiesce()
}

// Verif_C03_stalled_link_does_not_fail_the_sender: the link a stream's packets leave on is stalled (its
// writer takes nothing for a while - back-pressure - far shorter than the idle timeout), timers fire,
// then it drains. The local sender's write is not failed (an error from the packet socket is fatal to
// the QUIC connection on top of it): the packet waits and is delivered when the link drains.
func Verif_C03_stalled_link_does_not_fail_the_sender() {
	n := verifNetceptor("A")
	s := n.s
	cb := n.verifConn("B", 1)
	cb.WriteChan = make(chan []byte) // stalled
	s.routingTable["B"] = "B"
	done := make(chan error, 1)
	go func() { done <- s.SendMessageWithHopsToLive("strm", "B", "svc", []byte{1, 2, 3}, 30) }()
	verifapi.Quiesce()
	for i := 0; i < 3; i++ {
		verifapi.AdvanceTime(time.Second)
		verifapi.Quiesce()
	}
	var failed error
	select {
	case failed = <-done:
	default:
	}
	verifapi.Cover("link-stalled-for-a-while")
	verifapi.Assert("a-short-stall-does-not-fail-the-send", failed == nil)
	var got []byte
	select {
	case got = <-cb.WriteChan:
	default:
	}
	verifapi.Quiesce()
	verifapi.Assert("packet-delivered-once-the-link-drains", len(got) > 0 && got[0] == MsgTypeData)
	s.cancelFunc()
	verifapi.Quiesce()
}
