package netceptor

import (
	"context"
	"io"
	"net"
	"time"

	"github.com/ansible/receptor/internal/verifapi"
)

// C02 - datagrams arrive intact, only at the addressed service, with the true source.

func verifPayloadBound() int {
	if verifapi.Tier() == 1 {
		return 6
	}
	return 3
}

// Verif_C02_codec_roundtrip: decode(encode(m)) == m for every header and payload; byte 1 of the
// wire is the hop budget; names travel NUL-padded in bytes 20..35.
func Verif_C02_codec_roundtrip() {
	n := verifNetceptor("A")
	s := n.s
	md := &MessageData{
		FromNode:    verifName1(),
		ToNode:      verifName1(),
		FromService: verifService(),
		ToService:   verifService(),
		HopsToLive:  verifapi.Byte(),
		Data:        verifapi.BytesUpTo(verifPayloadBound()),
	}
	wire, err := s.translateDataFromMessage(md)
	verifapi.Assert("encode-ok", err == nil)
	verifapi.Assert("wire-length", len(wire) == 36+len(md.Data))
	verifapi.Assert("type-byte-data", wire[0] == MsgTypeData)
	verifapi.Assert("hops-in-byte-1", wire[1] == md.HopsToLive)
	back, err := s.translateDataToMessage(wire)
	verifapi.Assert("decode-ok", err == nil)
	verifapi.Cover("decoded")
	verifapi.Assert("roundtrip", verifSameMsg(md, back))
}

// Verif_C02_decode_unknown_hash: a header naming a node hash this node never learned is refused
// (no message is fabricated from it).
func Verif_C02_decode_unknown_hash() {
	n := verifNetceptor("A")
	s := n.s
	wire := verifapi.Bytes(36 + 1)
	md, err := s.translateDataToMessage(wire)
	if err == nil {
		verifapi.Cover("decoded-known")
		verifapi.Assert("only-known-names", verifapi.All(md.FromNode == "A", md.ToNode == "A"))
	} else {
		verifapi.Cover("refused")
	}
}

// Verif_C02_dispatch_exact: a packet for this node is handed to the listener bound to exactly
// ToService - once - and to no other listener; unbound service => nothing delivered anywhere.
func Verif_C02_dispatch_exact() {
	n := verifNetceptor("A")
	s := n.s
	svc1 := verifService()
	svc2 := verifService()
	verifapi.Assume(svc1 != svc2)
	verifapi.Assume(verifapi.All(svc1 != "ping", svc1 != "unreach", svc2 != "ping", svc2 != "unreach"))
	l1 := n.verifListener(svc1)
	l2 := n.verifListener(svc2)
	md := &MessageData{
		FromNode:    verifName1(),
		ToNode:      "A",
		FromService: verifService(),
		ToService:   verifService(),
		HopsToLive:  verifapi.Byte(),
		Data:        verifapi.BytesUpTo(2),
	}
	verifapi.Assume(verifapi.All(md.ToService != "ping", md.ToService != "unreach"))
	_ = s.handleMessageData(md)
	verifapi.Quiesce()
	want1, want2 := 0, 0
	if md.ToService == svc1 {
		want1 = 1
		verifapi.Cover("to-first")
	} else if md.ToService == svc2 {
		want2 = 1
		verifapi.Cover("to-second")
	} else {
		verifapi.Cover("to-none")
	}
	verifapi.Assert("first-listener-count", len(*l1.got) == want1)
	verifapi.Assert("second-listener-count", len(*l2.got) == want2)
	if want1 == 1 {
		verifapi.Assert("same-message-1", (*l1.got)[0] == md)
	}
	if want2 == 1 {
		verifapi.Assert("same-message-2", (*l2.got)[0] == md)
	}
}

// Verif_C02_not_for_me: a packet addressed to another node is never delivered to a local listener,
// whatever its service name.
func Verif_C02_not_for_me() {
	n := verifNetceptor("A")
	s := n.s
	svc := verifService()
	verifapi.Assume(verifapi.All(svc != "ping", svc != "unreach"))
	l := n.verifListener(svc)
	md := &MessageData{FromNode: verifName1(), ToNode: verifName1(), FromService: verifService(), ToService: svc,
		HopsToLive: verifapi.Byte(), Data: verifapi.BytesUpTo(1)}
	verifapi.Assume(md.ToNode != "A")
	_ = s.handleMessageData(md)
	verifapi.Quiesce()
	verifapi.Cover("handled")
	verifapi.Assert("not-delivered-locally", len(*l.got) == 0)
}

// Verif_C02_readfrom_writeto: WriteTo stamps the socket's own service and this node as source;
// ReadFrom returns the payload unchanged with (FromNode, FromService) as the address.
func Verif_C02_readfrom_writeto() {
	n := verifNetceptor("A")
	s := n.s
	src := verifService()
	dst := verifService()
	verifapi.Assume(src != dst)
	verifapi.Assume(verifapi.All(src != "ping", src != "unreach", dst != "ping", dst != "unreach"))
	sender := &PacketConn{s: s, localService: src, recvChan: make(chan *MessageData), hopsToLive: verifapi.Byte()}
	sender.context, sender.cancel = s.context, nil
	rpc := &PacketConn{s: s, localService: dst, recvChan: make(chan *MessageData, 1), hopsToLive: 30}
	rpc.context, rpc.cancel = s.context, nil
	s.listenerRegistry[dst] = rpc
	payload := verifapi.BytesUpTo(verifPayloadBound())
	nw, err := sender.WriteTo(payload, s.NewAddr("A", dst))
	verifapi.Assert("write-ok", verifapi.All(err == nil, nw == len(payload)))
	buf := make([]byte, 8)
	nr, addr, err := rpc.ReadFrom(buf)
	verifapi.Cover("read")
	verifapi.Assert("read-ok", err == nil)
	verifapi.Assert("payload-intact", verifapi.SameBytes(buf[:nr], payload))
	a, ok := addr.(Addr)
	verifapi.Assert("addr-type", ok)
	verifapi.Assert("true-source", verifapi.All(a.node == "A", a.service == src))
}

// Verif_C02_chain3: A -> B -> C over two forwarding hops, composing the real encode / decode /
// forward code of three nodes: payload and the four address fields arrive unchanged, at exactly
// the addressed listener on C, and nothing is delivered on A or B.
func Verif_C02_chain3() {
	a, b, c := verifNetceptor("A"), verifNetceptor("B"), verifNetceptor("C")
	ab := a.verifConn("B", 1)
	b.verifConn("A", 1)
	bc := b.verifConn("C", 1)
	c.verifConn("B", 1)
	a.s.routingTable["C"] = "B"
	a.s.routingTable["B"] = "B"
	b.s.routingTable["C"] = "C"
	b.s.routingTable["A"] = "A"
	for _, x := range []*verifNode{a, b, c} {
		x.s.AddNameHash("A")
		x.s.AddNameHash("B")
		x.s.AddNameHash("C")
	}
	svc := verifService()
	verifapi.Assume(verifapi.All(svc != "ping", svc != "unreach"))
	la := a.verifListener(svc)
	lb := b.verifListener(svc)
	lc := c.verifListener(svc)
	from := verifService()
	payload := verifapi.BytesUpTo(verifPayloadBound())
	hops := verifapi.Byte()
	verifapi.Assume(hops >= 2)
	err := a.s.SendMessageWithHopsToLive(from, "C", svc, payload, hops)
	verifapi.Assert("send-ok", err == nil)
	w1 := verifTake(ab)
	verifapi.Assert("one-frame-to-B", len(w1) == 1)
	m1, err := b.s.translateDataToMessage(w1[0])
	verifapi.Assert("B-decodes", err == nil)
	_ = b.s.handleMessageData(m1)
	w2 := verifTake(bc)
	verifapi.Assert("one-frame-to-C", len(w2) == 1)
	m2, err := c.s.translateDataToMessage(w2[0])
	verifapi.Assert("C-decodes", err == nil)
	_ = c.s.handleMessageData(m2)
	verifapi.Quiesce()
	verifapi.Cover("arrived")
	verifapi.Assert("delivered-once-on-C", len(*lc.got) == 1)
	verifapi.Assert("nothing-on-A-or-B", verifapi.All(len(*la.got) == 0, len(*lb.got) == 0))
	g := (*lc.got)[0]
	verifapi.Assert("addresses-intact", verifapi.All(g.FromNode == "A", g.ToNode == "C", g.FromService == from, g.ToService == svc))
	verifapi.Assert("payload-intact", verifapi.SameBytes(g.Data, payload))
	verifapi.Assert("two-hops-consumed", g.HopsToLive == hops-2)
}

// verifName12 is an arbitrary node name of one or two non-NUL bytes.
func verifName12() string {
	s := verifapi.String(1 + verifapi.Choose(2))
	for i := 0; i < len(s); i++ {
		verifapi.Assume(s[i] != 0)
	}
	return s
}

// Verif_C02_codec_two_flows: one node encodes two datagrams of two DIFFERENT flows one after the other
// (node names of one or two arbitrary bytes each, so that e.g. a->bc and ab->c are among them, as on a
// forwarding hop that carries both): each wire message decodes to exactly its own addresses and payload
// - no state kept from the first encoding leaks into the second.
func Verif_C02_codec_two_flows() {
	n := verifNetceptor("A")
	s := n.s
	m1 := &MessageData{FromNode: verifName12(), ToNode: verifName12(), FromService: "s1", ToService: "t1", HopsToLive: 3, Data: verifapi.BytesUpTo(1)}
	m2 := &MessageData{FromNode: verifName12(), ToNode: verifName12(), FromService: "s2", ToService: "t2", HopsToLive: 4, Data: verifapi.BytesUpTo(1)}
	w1, err1 := s.translateDataFromMessage(m1)
	w2, err2 := s.translateDataFromMessage(m2)
	verifapi.Assert("both-encode", verifapi.All(err1 == nil, err2 == nil))
	b1, e1 := s.translateDataToMessage(w1)
	b2, e2 := s.translateDataToMessage(w2)
	verifapi.Assert("both-decode", verifapi.All(e1 == nil, e2 == nil))
	verifapi.Cover("two-flows")
	verifapi.Assert("first-flow-intact", verifSameMsg(m1, b1))
	verifapi.Assert("second-flow-intact", verifSameMsg(m2, b2))
	// and again in the other order on the same node
	w2b, _ := s.translateDataFromMessage(m2)
	b2b, e3 := s.translateDataToMessage(w2b)
	verifapi.Assert("re-encoding-intact", e3 == nil && verifSameMsg(m2, b2b))
}

// verifChunkConn is a net.Conn whose Read hands out a fixed stream in chunks of the harness's choosing;
// a chunk may come together with a deadline error (the io.Reader contract allows n > 0 with an error),
// and reads between chunks may time out with nothing.
type verifChunkConn struct {
	chunks  [][]byte
	timeout []bool // chunk i is reported together with a deadline error
	idle    []bool // an empty read that times out precedes chunk i
	pos     int
	idled   bool
}

type verifTimeoutErr struct{}

func (verifTimeoutErr) Error() string   { return "i/o timeout" }
func (verifTimeoutErr) Timeout() bool   { return true }
func (verifTimeoutErr) Temporary() bool { return true }

func (c *verifChunkConn) Read(p []byte) (int, error) {
	if c.pos >= len(c.chunks) {
		return 0, io.EOF
	}
	if c.idle[c.pos] && !c.idled {
		c.idled = true
		return 0, verifTimeoutErr{}
	}
	c.idled = false
	n := copy(p, c.chunks[c.pos])
	var err error
	if c.timeout[c.pos] {
		err = verifTimeoutErr{}
	}
	c.pos++
	return n, err
}
func (c *verifChunkConn) Write(p []byte) (int, error)        { return len(p), nil }
func (c *verifChunkConn) Close() error                       { return nil }
func (c *verifChunkConn) LocalAddr() net.Addr                { return Addr{} }
func (c *verifChunkConn) RemoteAddr() net.Addr               { return Addr{} }
func (c *verifChunkConn) SetDeadline(t time.Time) error      { return nil }
func (c *verifChunkConn) SetReadDeadline(t time.Time) error  { return nil }
func (c *verifChunkConn) SetWriteDeadline(t time.Time) error { return nil }

// Verif_C02_external_backend_stream: two framed datagrams (arbitrary payloads of 0..2 bytes) arrive on
// an external-backend connection as one byte stream cut into chunks at every possible pair of places;
// any chunk may be delivered together with a deadline error, and empty timed-out reads may come in
// between. Whatever the receive loop is told, the two datagrams come out intact, in order, once each.
func Verif_C02_external_backend_stream() {
	a, b := verifapi.BytesUpTo(2), verifapi.BytesUpTo(2)
	tx := MessageConnFromNetConn(&verifChunkConn{}).(*netMessageConn)
	stream := append(append([]byte{}, tx.framer.SendData(a)...), tx.framer.SendData(b)...)
	c1 := verifapi.Choose(len(stream) + 1)
	c2 := c1 + verifapi.Choose(len(stream)-c1+1)
	conn := &verifChunkConn{}
	for _, ch := range [][]byte{stream[:c1], stream[c1:c2], stream[c2:]} {
		if len(ch) > 0 {
			conn.chunks = append(conn.chunks, ch)
			conn.timeout = append(conn.timeout, verifapi.Bool())
			conn.idle = append(conn.idle, verifapi.Bool())
		}
	}
	mc := MessageConnFromNetConn(conn)
	var got [][]byte
	for i := 0; i < 12 && len(got) < 2; i++ {
		m, err := mc.ReadMessage(context.Background(), time.Second)
		if err == nil {
			got = append(got, m)
		} else if err != ErrTimeout {
			break
		}
	}
	verifapi.Cover("stream-consumed")
	verifapi.Assert("both-datagrams-received", len(got) == 2)
	verifapi.Assert("first-datagram-intact", verifapi.SameBytes(got[0], a))
	verifapi.Assert("second-datagram-intact", verifapi.SameBytes(got[1], b))
}

// Verif_C02_node_names_are_exact: node IDs are compared byte for byte everywhere; only the literal
// alias "localhost" (any letter case) means "this node". A datagram sent from node "Edge1" to a node
// whose ID differs from the sender's only in letter case ("edge1", "EDGE1") is for ANOTHER node: it is
// never handed to a listener of the sending node, it leaves towards that node (or fails for want of a
// route).
func Verif_C02_node_names_are_exact() {
	n := verifNetceptor("Edge1")
	s := n.s
	cb := n.verifConn("edge1", 1)
	routed := verifapi.Bool()
	if routed {
		s.routingTable["edge1"] = "edge1"
		s.routingTable["EDGE1"] = "edge1"
	}
	sk := n.verifListener("svc")
	to := []string{"edge1", "EDGE1", "Edge1", "localhost", "LOCALHOST"}[verifapi.Choose(5)]
	err := s.SendMessageWithHopsToLive("src", to, "svc", []byte{7}, 5)
	verifapi.Quiesce()
	out := verifTake(cb)
	verifapi.Cover("sent")
	local := to == "Edge1" || to == "localhost" || to == "LOCALHOST"
	if local {
		verifapi.Assert("own-id-and-localhost-delivered-locally", verifapi.All(err == nil, len(*sk.got) == 1, len(out) == 0))
	} else {
		verifapi.Assert("another-node-s-datagram-never-handed-to-a-local-listener", len(*sk.got) == 0)
		if routed {
			verifapi.Assert("it-leaves-towards-that-node", verifapi.All(err == nil, len(out) == 1))
		} else {
			verifapi.Assert("without-a-route-the-sender-is-told", err != nil)
		}
	}
}

// Verif_C02_service_names_are_bytes: service names are up to 8 arbitrary non-zero BYTES, not text: names
// that are not valid UTF-8 ("\xff", Latin-1 "cli\xe9nt", a lone continuation byte) come out of the wire
// decoder byte for byte as they went in.
func Verif_C02_service_names_are_bytes() {
	s := verifNetceptor("A").s
	names := []string{"\xff", "cli\xe9nt", "\x80", "a\xc3", "ok", "caf\xc3\xa9"}
	md := &MessageData{FromNode: "A", ToNode: "A", FromService: names[verifapi.Choose(6)], ToService: names[verifapi.Choose(6)], HopsToLive: 3, Data: []byte{1}}
	wire, err := s.translateDataFromMessage(md)
	verifapi.Assert("encoded", err == nil)
	back, derr := s.translateDataToMessage(wire)
	verifapi.Cover("decoded")
	verifapi.Assert("service-names-come-back-byte-for-byte", verifapi.All(derr == nil, back.FromService == md.FromService, back.ToService == md.ToService))
}
