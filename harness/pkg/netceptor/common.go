package netceptor

import (
	"context"
	"reflect"
	"sync"
	"time"

	"github.com/ansible/receptor/internal/verifapi"
	"github.com/ansible/receptor/pkg/logger"
	"github.com/ansible/receptor/pkg/utils"
)

// verifNetceptor builds a node field by field (the constructor NewWithConsts would start the
// periodic goroutines, which the harnesses drive explicitly instead). The three request
// channels are served by recording goroutines.
type verifNode struct {
	s          *Netceptor
	floodReqs  *[]time.Duration
	tableReqs  *[]time.Duration
	adReqs     *[]time.Duration
	cancelRoot context.CancelFunc
}

func verifDrain(ch chan time.Duration) *[]time.Duration {
	log := &[]time.Duration{}
	go func() {
		for d := range ch {
			*log = append(*log, d)
		}
	}()
	return log
}

func verifNetceptor(id string) *verifNode {
	s := &Netceptor{
		nodeID:                   id,
		mtu:                      64,
		routeUpdateTime:          10 * time.Second,
		serviceAdTime:            60 * time.Second,
		seenUpdateExpireTime:     time.Hour,
		maxForwardingHops:        30,
		maxConnectionIdleTime:    21 * time.Second,
		epoch:                    1000,
		sequence:                 0,
		sequenceLock:             &sync.RWMutex{},
		connLock:                 &sync.RWMutex{},
		connections:              make(map[string]*connInfo),
		knownNodeLock:            &sync.RWMutex{},
		knownNodeInfo:            make(map[string]*nodeInfo),
		seenUpdatesLock:          &sync.RWMutex{},
		seenUpdates:              make(map[string]time.Time),
		knownConnectionCosts:     make(map[string]map[string]float64),
		routingTableLock:         &sync.RWMutex{},
		routingTable:             make(map[string]string),
		routingPathCosts:         make(map[string]float64),
		listenerLock:             &sync.RWMutex{},
		listenerRegistry:         make(map[string]*PacketConn),
		hashLock:                 &sync.RWMutex{},
		nameHashes:               make(map[uint64]string),
		serviceAdsLock:           &sync.RWMutex{},
		serviceAdsReceived:       make(map[string]map[string]*ServiceAdvertisement),
		networkName:              "netceptor-" + id,
		firewallLock:             &sync.RWMutex{},
		workCommandsLock:         &sync.RWMutex{},
		Logger:                   logger.NewReceptorLogger(""),
		sendRouteFloodChan:       make(chan time.Duration),
		updateRoutingTableChan:   make(chan time.Duration),
		sendServiceAdsChan:       make(chan time.Duration),
	}
	s.reservedServices = map[string]func(*MessageData) error{
		"ping":    s.handlePing,
		"unreach": s.handleUnreachable,
	}
	n := &verifNode{s: s}
	s.context, s.cancelFunc = context.WithCancel(context.Background())
	s.AddNameHash(id)
	n.floodReqs = verifDrain(s.sendRouteFloodChan)
	n.tableReqs = verifDrain(s.updateRoutingTableChan)
	n.adReqs = verifDrain(s.sendServiceAdsChan)
	n.withBrokers()
	return n
}

func (n *verifNode) withBrokers() *verifNode {
	n.s.unreachableBroker = utils.NewBroker(n.s.context, reflect.TypeOf(UnreachableNotification{}))
	n.s.routingUpdateBroker = utils.NewBroker(n.s.context, reflect.TypeOf(map[string]string{}))
	return n
}

// verifConn registers an established connection to peer with a buffered write channel that the
// harness reads back (the wire output towards that peer).
func (n *verifNode) verifConn(peer string, cost float64) *connInfo {
	ci := &connInfo{
		ReadChan:         make(chan []byte),
		WriteChan:        make(chan []byte, 8),
		Cost:             cost,
		lastReceivedLock: &sync.RWMutex{},
		logger:           n.s.Logger,
	}
	ci.Context, ci.CancelFunc = context.WithCancel(n.s.context)
	n.s.connections[peer] = ci
	n.s.AddNameHash(peer)
	return ci
}

// verifTake returns what was written towards a connection so far (non-blocking).
func verifTake(ci *connInfo) [][]byte {
	var out [][]byte
	for {
		select {
		case m := <-ci.WriteChan:
			out = append(out, m)
		default:
			return out
		}
	}
}

// verifListener binds a datagram socket the way ListenPacket does, without the unreachable
// plumbing, and records what is delivered to it.
type verifSock struct {
	pc   *PacketConn
	got  *[]*MessageData
	done chan struct{}
}

func (n *verifNode) verifListener(service string) *verifSock {
	pc := &PacketConn{s: n.s, localService: service, recvChan: make(chan *MessageData), hopsToLive: n.s.maxForwardingHops}
	pc.context, pc.cancel = context.WithCancel(n.s.context)
	n.s.listenerRegistry[service] = pc
	sk := &verifSock{pc: pc, got: &[]*MessageData{}, done: make(chan struct{})}
	go func() {
		for m := range pc.recvChan {
			*sk.got = append(*sk.got, m)
		}
		close(sk.done)
	}()
	return sk
}

// verifName1 is an arbitrary one-byte node/service name without NUL.
func verifName1() string {
	s := verifapi.String(1)
	verifapi.Assume(s[0] != 0)
	return s
}

// verifService is an arbitrary service name of 0,1,2 or 8 non-NUL bytes.
func verifService() string {
	n := []int{0, 1, 2, 8}[verifapi.Choose(4)]
	s := verifapi.String(n)
	for i := 0; i < len(s); i++ {
		verifapi.Assume(s[i] != 0)
	}
	return s
}

func verifSameMsg(a, b *MessageData) bool {
	return verifapi.All(a.FromNode == b.FromNode, a.ToNode == b.ToNode, a.FromService == b.FromService,
		a.ToService == b.ToService, a.HopsToLive == b.HopsToLive, verifapi.SameBytes(a.Data, b.Data))
}
