package netceptor

import (
	"time"

	"github.com/ansible/receptor/internal/verifapi"
)

// C01 - routing tables are least-cost and loop-free (the local computation knowledge -> table, and
// the bookkeeping steps that keep the knowledge equal to what was received).

const verifInf = 1e15

type verifGraph struct {
	names []string
	has   [][]bool
	cost  [][]float64
}

// verifAnyGraph installs an arbitrary directed weighted graph over names into the node's knowledge:
// every edge u->v (u != v) present or absent, every cost an arbitrary positive number <= 1000.
// Every node of the universe has an entry (possibly empty), as after every node's own update arrived.
func verifAnyGraph(s *Netceptor, names []string) *verifGraph {
	g := &verifGraph{names: names}
	n := len(names)
	for u := 0; u < n; u++ {
		g.has = append(g.has, make([]bool, n))
		g.cost = append(g.cost, make([]float64, n))
		m := map[string]float64{}
		for v := 0; v < n; v++ {
			if u == v {
				continue
			}
			c, p := verifapi.Float(), verifapi.Bool()
			verifapi.Assume(verifapi.All(c > 0, c <= 1000))
			g.has[u][v], g.cost[u][v] = p, c
			verifapi.PutIf(m, names[v], c, p)
		}
		s.knownConnectionCosts[names[u]] = m
	}
	return g
}

// dist is the reference: Bellman-Ford from src, n-1 rounds, branch-free (one term per distance).
func (g *verifGraph) dist(src int) []float64 {
	n := len(g.names)
	d := make([]float64, n)
	for i := range d {
		d[i] = verifInf
	}
	d[src] = 0
	for round := 0; round < n-1; round++ {
		nd := append([]float64{}, d...)
		for u := 0; u < n; u++ {
			for v := 0; v < n; v++ {
				if u == v {
					continue
				}
				cand := d[u] + g.cost[u][v]
				nd[v] = verifapi.FIte(verifapi.All(g.has[u][v], d[u] < verifInf, cand < nd[v]), cand, nd[v])
			}
		}
		d = nd
	}
	return d
}

// Verif_C01_table_vs_reference: for EVERY known graph over the universe: the table lists exactly the
// reachable nodes, the reported cost is the least cost, the next hop is a direct neighbour on a
// least-cost path (so following next hops strictly decreases the remaining distance: loop-free), and
// the computation terminates.
func Verif_C01_table_vs_reference() {
	names := []string{"A", "B", "C"}
	if verifapi.Tier() == 1 {
		names = []string{"A", "B", "C", "D"}
	}
	n := verifNetceptor("A")
	s := n.s
	g := verifAnyGraph(s, names)
	verifapi.SetUnwind(40, "routing-table-computation-terminates")
	s.updateRoutingTable()
	verifapi.SetUnwind(100000, "")
	verifapi.Quiesce()
	verifapi.Cover("table-computed")
	dA := g.dist(0)
	all := make([][]float64, len(names))
	for i := range names {
		all[i] = g.dist(i)
	}
	_, selfListed := s.routingTable["A"]
	verifapi.Assert("self-not-in-table", !selfListed)
	for di := 1; di < len(names); di++ {
		d := names[di]
		hop, listed := s.routingTable[d]
		reachable := dA[di] < verifInf
		verifapi.Assert("listed-iff-reachable", listed == reachable)
		if !listed {
			continue
		}
		verifapi.Cover("route-present")
		verifapi.Assert("reported-cost-is-least-cost", s.routingPathCosts[d] == dA[di])
		// the hop is one of the universe's nodes; find it
		ok := false
		for hi := 1; hi < len(names); hi++ {
			if hop == names[hi] {
				ok = true
				verifapi.Assert("next-hop-is-direct-neighbour", g.has[0][hi])
				verifapi.Assert("next-hop-lies-on-a-least-cost-path", g.cost[0][hi]+all[hi][di] == dA[di])
			}
		}
		verifapi.Assert("next-hop-is-a-known-node", ok)
	}
	verifapi.Assert("lock-released", verifapi.HeldLocks() == 0)
}

// verifAnySymGraph: as verifAnyGraph, for undirected graphs (every link present or absent in both
// directions with one arbitrary cost) - what a mesh whose links agree on their cost looks like.
func verifAnySymGraph(s *Netceptor, names []string) *verifGraph {
	g := &verifGraph{names: names}
	n := len(names)
	ms := make([]map[string]float64, n)
	for u := 0; u < n; u++ {
		g.has = append(g.has, make([]bool, n))
		g.cost = append(g.cost, make([]float64, n))
		ms[u] = map[string]float64{}
	}
	for u := 0; u < n; u++ {
		for v := u + 1; v < n; v++ {
			c, p := verifapi.Float(), verifapi.Bool()
			verifapi.Assume(verifapi.All(c > 0, c <= 1000))
			g.has[u][v], g.cost[u][v], g.has[v][u], g.cost[v][u] = p, c, p, c
			verifapi.PutIf(ms[u], names[v], c, p)
			verifapi.PutIf(ms[v], names[u], c, p)
		}
	}
	for u := 0; u < n; u++ {
		s.knownConnectionCosts[names[u]] = ms[u]
	}
	return g
}

// Verif_C01_table_vs_reference_undirected: the same comparison as Verif_C01_table_vs_reference for
// every UNDIRECTED weighted graph over four nodes (six links, arbitrary positive costs): large enough for a
// node whose tentative cost improves while it is queued and another whose best path runs through it.
func Verif_C01_table_vs_reference_undirected() {
	names := []string{"A", "B", "C", "D"}
	n := verifNetceptor("A")
	s := n.s
	g := verifAnySymGraph(s, names)
	verifapi.SetUnwind(60, "routing-table-computation-terminates")
	s.updateRoutingTable()
	verifapi.SetUnwind(100000, "")
	verifapi.Quiesce()
	verifapi.Cover("table-computed")
	all := make([][]float64, len(names))
	for i := range names {
		all[i] = g.dist(i)
	}
	dA := all[0]
	for di := 1; di < len(names); di++ {
		d := names[di]
		hop, listed := s.routingTable[d]
		verifapi.Assert("listed-iff-reachable", listed == (dA[di] < verifInf))
		if !listed {
			continue
		}
		verifapi.Cover("route-present")
		verifapi.Assert("reported-cost-is-least-cost", s.routingPathCosts[d] == dA[di])
		ok := false
		for hi := 1; hi < len(names); hi++ {
			if hop == names[hi] {
				ok = true
				verifapi.Assert("next-hop-is-direct-neighbour", g.has[0][hi])
				verifapi.Assert("next-hop-lies-on-a-least-cost-path", g.cost[0][hi]+all[hi][di] == dA[di])
			}
		}
		verifapi.Assert("next-hop-is-a-known-node", ok)
	}
	verifapi.Assert("lock-released", verifapi.HeldLocks() == 0)
}

// Verif_C01_knowledge_to_table: the pipeline received updates -> knowledge -> table. Node A is
// connected to B; updates from B and C (arbitrary positive costs, arbitrary neighbour sets over
// {A,B,C,D}) are handled by the real update handler, then the table is computed. A later update of B
// that drops neighbours makes nodes that became unreachable disappear from the table.
func Verif_C01_knowledge_to_table() {
	n := verifNetceptor("A")
	s := n.s
	n.verifConn("B", 1)
	cAB := verifapi.Float()
	verifapi.Assume(verifapi.All(cAB > 0, cAB <= 1000))
	s.knownConnectionCosts["A"] = map[string]float64{"B": cAB}
	s.knownConnectionCosts["B"] = map[string]float64{"A": cAB}
	mk := func(origin string, seq uint64, others []string) (map[string]float64, []bool, []float64) {
		m := map[string]float64{}
		var ps []bool
		var cs []float64
		for _, o := range others {
			c, p := verifapi.Float(), verifapi.Bool()
			verifapi.Assume(verifapi.All(c > 0, c <= 1000))
			verifapi.PutIf(m, o, c, p)
			ps, cs = append(ps, p), append(cs, c)
		}
		return m, ps, cs
	}
	// B lists A (fixed) and possibly C; C lists possibly B
	mB, pB, cB := mk("B", 1, []string{"C"})
	mB["A"] = cAB
	mC, pC, cC := mk("C", 1, []string{"B"})
	_ = cC
	s.handleRoutingUpdate(&routingUpdate{NodeID: "B", UpdateID: "u1", UpdateEpoch: 1, UpdateSequence: 1, Connections: mB, ForwardingNode: "B"}, "B")
	s.handleRoutingUpdate(&routingUpdate{NodeID: "C", UpdateID: "u2", UpdateEpoch: 1, UpdateSequence: 1, Connections: mC, ForwardingNode: "B"}, "B")
	verifapi.Quiesce()
	s.updateRoutingTable()
	verifapi.Quiesce()
	hop, ok := s.routingTable["B"]
	verifapi.Assert("neighbour-routed-directly", verifapi.All(ok, hop == "B", s.routingPathCosts["B"] == cAB))
	hopC, okC := s.routingTable["C"]
	verifapi.Cover("first-table")
	// an edge counts only while both ends list it: C's own update prunes B->C when C does not list B
	verifapi.Assert("node-behind-neighbour-listed-iff-both-ends-list-the-link", okC == verifapi.All(pB[0], pC[0]))
	if okC {
		verifapi.Assert("node-behind-neighbour-via-neighbour", verifapi.All(hopC == "B", s.routingPathCosts["C"] == cAB+cB[0]))
	}
	// B's next update no longer lists C: C must disappear
	s.handleRoutingUpdate(&routingUpdate{NodeID: "B", UpdateID: "u3", UpdateEpoch: 1, UpdateSequence: 2, Connections: map[string]float64{"A": cAB}, ForwardingNode: "B"}, "B")
	verifapi.Quiesce()
	s.updateRoutingTable()
	verifapi.Quiesce()
	_, okC = s.routingTable["C"]
	verifapi.Cover("second-table")
	verifapi.Assert("unreachable-node-dropped", !okC)
	_, ok = s.routingTable["B"]
	verifapi.Assert("neighbour-still-routed", ok)
}

// Verif_C01_remove_connection: losing the session to B removes both directions of the edge from the
// knowledge, so that the next table no longer routes through B unless another path exists.
func Verif_C01_remove_connection() {
	n := verifNetceptor("A")
	s := n.s
	n.verifConn("B", 1)
	n.verifConn("C", 1)
	g := verifAnyGraph(s, []string{"A", "B", "C"})
	_ = g
	s.removeConnection("B")
	_, c1 := s.connections["B"]
	_, e1 := s.knownConnectionCosts["A"]["B"]
	_, e2 := s.knownConnectionCosts["B"]["A"]
	verifapi.Cover("removed")
	verifapi.Assert("connection-and-both-edge-directions-forgotten", verifapi.All(!c1, !e1, !e2))
	_, c2 := s.connections["C"]
	verifapi.Assert("other-connection-kept", c2)
	_, ac := s.knownConnectionCosts["A"]["C"]
	verifapi.Assert("other-edges-untouched", verifapi.All(ac == g.has[0][2], len(s.knownConnectionCosts["C"]) == verifapi.Ite(g.has[2][0], 1, 0)+verifapi.Ite(g.has[2][1], 1, 0)))
	s.updateRoutingTable()
	verifapi.Quiesce()
	hop, ok := s.routingTable["B"]
	if ok {
		verifapi.Cover("alternative-path")
		verifapi.Assert("lost-neighbour-only-via-other-path", verifapi.All(hop == "C", g.has[0][2], g.has[2][1]))
	} else {
		verifapi.Cover("no-path-left")
		verifapi.Assert("no-route-means-no-path", !verifapi.All(g.has[0][2], g.has[2][1]))
	}
}

// Verif_C01_ageing_step: one pass of the idle monitor: a connection whose last reception is older
// than the idle limit is cancelled (which ends its session and removes its edges), a fresh one is kept.
func Verif_C01_ageing_step() {
	n := verifNetceptor("A")
	s := n.s
	cb := n.verifConn("B", 1)
	cc := n.verifConn("C", 1)
	lastB, lastC := verifapi.Int64(), verifapi.Int64()
	verifapi.Assume(verifapi.All(lastB > 0, lastC > 0, lastB < 1<<60, lastC < 1<<60))
	cb.lastReceivedData = time.Unix(0, lastB)
	cc.lastReceivedData = time.Unix(0, lastC)
	before := time.Now()
	go s.monitorConnectionAging()
	verifapi.Quiesce()
	verifapi.AdvanceTime(5 * time.Second)
	verifapi.Quiesce()
	after := time.Now()
	verifapi.Cover("one-pass")
	for _, x := range []struct {
		ci   *connInfo
		last int64
	}{{cb, lastB}, {cc, lastC}} {
		if x.ci.Context.Err() != nil {
			verifapi.Cover("timed-out")
			verifapi.Assert("only-idle-connections-are-cancelled", after.Sub(time.Unix(0, x.last)) > s.maxConnectionIdleTime)
		} else {
			verifapi.Cover("kept")
			verifapi.Assert("idle-connections-are-cancelled", before.Sub(time.Unix(0, x.last)) <= s.maxConnectionIdleTime)
		}
	}
	s.cancelFunc()
	verifapi.Quiesce()
	verifapi.Assert("no-lock-left-held", verifapi.HeldLocks() == 0)
}

// Verif_C01_silent_link_detected: a link that fails silently - the session stays open and accepts
// every Send, but nothing is received on it any more - is timed out by the idle monitor although this
// node keeps writing its periodic updates to it: after the real protoWriter has written any number of
// messages at arbitrary instants, a monitor pass made later than the idle limit after the last
// RECEPTION cancels the connection.
func Verif_C01_silent_link_detected() {
	n := verifNetceptor("A")
	s := n.s
	cb := n.verifConn("B", 1)
	last := verifapi.Int64() // instant of the last reception on the link
	verifapi.Assume(verifapi.All(last > 0, last < 1<<60))
	t0 := time.Unix(0, last)
	cb.lastReceivedData = t0
	sess := verifNewSession(nil)
	go cb.protoWriter(sess)
	go s.monitorConnectionAging()
	verifapi.Quiesce()
	writes := 0
	for i := 0; i < 3; i++ {
		if verifapi.Bool() {
			cb.WriteChan <- []byte{MsgTypeRoute, byte(i)}
			writes++
			verifapi.Quiesce()
		}
	}
	verifapi.Assert("writes-went-out-on-the-open-session", len(*sess.sent) == writes)
	t1 := time.Now()
	verifapi.Assume(t1.Sub(t0) > s.maxConnectionIdleTime)
	verifapi.AdvanceTime(5 * time.Second)
	verifapi.Quiesce()
	verifapi.Cover("monitor-pass-after-idle-limit")
	verifapi.Assert("silent-link-timed-out-despite-our-own-writes", cb.Context.Err() != nil)
	s.cancelFunc()
	verifapi.Quiesce()
	verifapi.Assert("no-lock-left-held", verifapi.HeldLocks() == 0)
}

// Verif_C01_restarted_node_followed: a node that restarts announces a newer epoch and starts its
// sequence numbers again from a low value. Whatever was recorded about its previous run (arbitrary
// epoch/sequence), its updates of the new run are all followed, in order: after the second update of
// the new run the table reflects that update (a link it added, or dropped, after the restart).
func Verif_C01_restarted_node_followed() {
	n := verifNetceptor("A")
	s := n.s
	n.verifConn("B", 1)
	s.knownConnectionCosts["A"] = map[string]float64{"B": 1}
	s.knownConnectionCosts["B"] = map[string]float64{"A": 1, "C": 1}
	s.knownConnectionCosts["C"] = map[string]float64{"B": 1}
	oldE, oldS := verifapi.Uint64(), verifapi.Uint64()
	s.knownNodeInfo["B"] = &nodeInfo{Epoch: oldE, Sequence: oldS}
	s.knownNodeInfo["C"] = &nodeInfo{Epoch: 1, Sequence: 1}
	newE := verifapi.Uint64()
	s1, s2 := verifapi.Uint64(), verifapi.Uint64()
	verifapi.Assume(verifapi.All(newE > oldE, s1 < s2, s2 < 1000))
	// first update of the new run: B is only connected to A so far
	s.handleRoutingUpdate(&routingUpdate{NodeID: "B", UpdateID: "r1", UpdateEpoch: newE, UpdateSequence: s1, Connections: map[string]float64{"A": 1}, ForwardingNode: "B"}, "B")
	verifapi.Quiesce()
	s.updateRoutingTable()
	verifapi.Quiesce()
	_, viaB := s.routingTable["C"]
	verifapi.Cover("first-update-of-new-run")
	verifapi.Assert("restarted-node-first-update-followed", !viaB)
	// second update of the new run: the link to C is back
	s.handleRoutingUpdate(&routingUpdate{NodeID: "B", UpdateID: "r2", UpdateEpoch: newE, UpdateSequence: s2, Connections: map[string]float64{"A": 1, "C": 1}, ForwardingNode: "B"}, "B")
	verifapi.Quiesce()
	s.updateRoutingTable()
	verifapi.Quiesce()
	hop, ok := s.routingTable["C"]
	verifapi.Cover("second-update-of-new-run")
	verifapi.Assert("restarted-node-later-updates-followed", verifapi.All(ok, hop == "B", s.routingPathCosts["C"] == 2))
}

// Verif_C01_link_lost_at_any_stage: node A knows X through B (cost 2 or more). A direct link A-X (arbitrary
// cost) comes up through the real protocol loop and is lost again at one of three stages: right after A
// accepted the handshake, after X confirmed the link with an update listing A, or after a further update.
// Each time the pending flood/rebuild requests are served (as the tick runners do). At the end A does not
// count X among its connections and routes to X via B at the cost of that path - whatever the stage.
func Verif_C01_link_lost_at_any_stage() {
	verifapi.SelectFork(false)
	n := verifNetceptor("A")
	s := n.s
	n.verifConn("B", 1)
	s.knownConnectionCosts["A"] = map[string]float64{"B": 1}
	s.knownConnectionCosts["B"] = map[string]float64{"A": 1, "X": 1}
	s.knownConnectionCosts["X"] = map[string]float64{"B": 1}
	s.knownNodeInfo["B"] = &nodeInfo{Epoch: 1, Sequence: 1}
	s.knownNodeInfo["X"] = &nodeInfo{Epoch: 5, Sequence: 0}
	serve := func() {
		for i := 0; i < 4; i++ {
			verifapi.Quiesce()
			if len(*n.floodReqs) > 0 {
				*n.floodReqs = nil
				s.sendRoutingUpdate(0)
			}
			if len(*n.tableReqs) > 0 {
				*n.tableReqs = nil
				s.updateRoutingTable()
			}
		}
	}
	s.updateRoutingTable()
	serve()
	verifapi.Assert("x-first-reached-through-b", verifapi.All(s.routingTable["X"] == "B", s.routingPathCosts["X"] == 2))
	cost := verifapi.Float()
	verifapi.Assume(verifapi.All(cost > 0, cost < 2))
	stage := verifapi.Choose(4) // 3: the established session is ended by a rejection message from the peer
	xUpdate := func(id string, seq uint64) []byte {
		ru := &routingUpdate{NodeID: "X", UpdateID: id, UpdateEpoch: 5, UpdateSequence: seq,
			Connections: map[string]float64{"A": cost, "B": 1}, ForwardingNode: "X"}
		return append([]byte{MsgTypeRoute}, verifapi.JSON(ru)...)
	}
	script := [][]byte{xUpdate("h", 1)}
	if stage >= 1 {
		script = append(script, xUpdate("u2", 2))
	}
	if stage >= 2 {
		script = append(script, xUpdate("u3", 3))
	}
	if stage == 3 {
		script = append(script, []byte{MsgTypeReject})
	}
	r := verifStartProtocol(n, script, &BackendInfo{connectionCost: cost})
	serve()
	verifapi.Cover("direct-link-up")
	if stage != 3 {
		_, up := s.connections["X"]
		verifapi.Assert("direct-link-established", up)
		verifapi.Assert("direct-link-used-while-it-is-cheaper", verifapi.All(s.routingTable["X"] == "X", s.routingPathCosts["X"] == cost))
	}
	close(r.sess.gate) // the session ends: the link is lost
	serve()
	// X's own last word (relayed by B): it no longer lists A
	s.handleRoutingUpdate(&routingUpdate{NodeID: "X", UpdateID: "after", UpdateEpoch: 5, UpdateSequence: 9,
		Connections: map[string]float64{"B": 1}, ForwardingNode: "B"}, "B")
	serve()
	verifapi.Cover("direct-link-lost")
	_, still := s.connections["X"]
	verifapi.Assert("lost-link-is-no-connection", !still)
	verifapi.Assert("route-falls-back-to-the-remaining-path", verifapi.All(s.routingTable["X"] == "B", s.routingPathCosts["X"] == 2))
	verifapi.Assert("no-lock-left-held", verifapi.HeldLocks() == 0)
}

// Verif_C01_own_links_survive_updates_that_omit_them: A is directly connected to X and to C (both
// sessions up). An update of X that does not list A yet (X flooded it just before it accepted the link)
// arrives through C, newer than what A knew of X. A's own adjacency is A's business: A still counts
// the link A-X, and - X being a connected neighbour - still routes to X directly at the link cost.
func Verif_C01_own_links_survive_updates_that_omit_them() {
	n := verifNetceptor("A")
	s := n.s
	cost := verifapi.Float()
	verifapi.Assume(verifapi.All(cost > 0, cost < 2))
	n.verifConn("X", cost)
	n.verifConn("C", 1)
	s.knownConnectionCosts["A"] = map[string]float64{"X": cost, "C": 1}
	s.knownConnectionCosts["X"] = map[string]float64{"A": cost, "C": 1}
	s.knownConnectionCosts["C"] = map[string]float64{"A": 1, "X": 1}
	s.knownNodeInfo["X"] = &nodeInfo{Epoch: 5, Sequence: 1}
	s.knownNodeInfo["C"] = &nodeInfo{Epoch: 5, Sequence: 1}
	s.updateRoutingTable()
	verifapi.Quiesce()
	verifapi.Assert("direct-route-first", verifapi.All(s.routingTable["X"] == "X", s.routingPathCosts["X"] == cost))
	s.handleRoutingUpdate(&routingUpdate{NodeID: "X", UpdateID: "older-view", UpdateEpoch: 5, UpdateSequence: 2,
		Connections: map[string]float64{"C": 1}, ForwardingNode: "C"}, "C")
	verifapi.Quiesce()
	s.updateRoutingTable()
	verifapi.Quiesce()
	verifapi.Cover("foreign-update-handled")
	_, own := s.knownConnectionCosts["A"]["X"]
	verifapi.Assert("own-link-still-in-own-adjacency", own)
	_, up := s.connections["X"]
	verifapi.Assert("session-untouched", up)
	// then X's next update over the direct link lists A again
	s.handleRoutingUpdate(&routingUpdate{NodeID: "X", UpdateID: "current-view", UpdateEpoch: 5, UpdateSequence: 3,
		Connections: map[string]float64{"C": 1, "A": cost}, ForwardingNode: "X"}, "X")
	verifapi.Quiesce()
	s.updateRoutingTable()
	verifapi.Quiesce()
	verifapi.Assert("neighbour-routed-directly-at-the-link-cost", verifapi.All(s.routingTable["X"] == "X", s.routingPathCosts["X"] == cost))
}

// Verif_C01_redundant_session_keeps_the_link: A and X are connected and converged. A second session
// from X is offered (both ends dialled, or X reconnected through another listener) and is refused as a
// duplicate; the pending requests are served. The established link is untouched: A still counts X as
// a connection, keeps the link in its own adjacency and routes to X directly.
func Verif_C01_redundant_session_keeps_the_link() {
	verifapi.SelectFork(false)
	n := verifNetceptor("A")
	s := n.s
	n.verifConn("X", 1)
	s.knownConnectionCosts["A"] = map[string]float64{"X": 1}
	s.knownConnectionCosts["X"] = map[string]float64{"A": 1}
	s.knownNodeInfo["X"] = &nodeInfo{Epoch: 5, Sequence: 1}
	s.updateRoutingTable()
	verifapi.Quiesce()
	allowed := verifapi.Bool()
	bi := &BackendInfo{connectionCost: 1}
	if !allowed {
		bi.allowedPeers = []string{"somebody-else"} // a second backend whose allow-list excludes X
	}
	hs := &routingUpdate{NodeID: "X", UpdateID: "again", UpdateEpoch: 5, UpdateSequence: 2, Connections: map[string]float64{"A": 1}, ForwardingNode: "X"}
	r := verifStartProtocol(n, [][]byte{append([]byte{MsgTypeRoute}, verifapi.JSON(hs)...)}, bi)
	verifapi.Quiesce()
	if len(*n.tableReqs) > 0 {
		*n.tableReqs = nil
		s.updateRoutingTable()
	}
	verifapi.Quiesce()
	verifapi.Cover("second-session-handled")
	verifapi.Assert("second-session-refused", verifRejected(*r.sess.sent))
	_, up := s.connections["X"]
	_, own := s.knownConnectionCosts["A"]["X"]
	verifapi.Assert("established-link-untouched", verifapi.All(up, own, s.routingTable["X"] == "X", s.routingPathCosts["X"] == 1))
	close(r.sess.gate)
	verifapi.Quiesce()
}
