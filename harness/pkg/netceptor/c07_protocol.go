package netceptor

import (
	"context"
	"io"
	"sync"
	"time"

	"github.com/ansible/receptor/internal/verifapi"
)

// C07 - no bytes from a backend peer can crash or wedge a node.

// verifSession is a scripted BackendSession: Recv hands out the datagrams of the script, then EOF.
type verifSession struct {
	script [][]byte
	pos    int
	sent   *[][]byte
	closed *int
}

func (v *verifSession) Send(b []byte) error {
	*v.sent = append(*v.sent, b)
	return nil
}

func (v *verifSession) Recv(time.Duration) ([]byte, error) {
	if v.pos < len(v.script) {
		b := v.script[v.pos]
		v.pos++
		return b, nil
	}
	return nil, io.EOF
}

func (v *verifSession) Close() error {
	*v.closed++
	return nil
}

func verifNewSession(script [][]byte) *verifSession {
	return &verifSession{script: script, sent: &[][]byte{}, closed: new(int)}
}

// verifHandshake is a well-formed first message of peer `id` (lists us with the given cost).
func verifHandshake(id string, cost float64) []byte {
	ru := &routingUpdate{NodeID: id, UpdateID: "h", UpdateEpoch: 5, UpdateSequence: 1,
		Connections: map[string]float64{"A": cost}, ForwardingNode: id}
	return append([]byte{MsgTypeRoute}, verifapi.JSON(ru)...)
}

// verifAnyDatagram returns one arbitrary datagram drawn from the classes a peer can send.
func verifAnyDatagram() []byte {
	switch verifapi.Choose(8) {
	case 7: // data packet between KNOWN nodes (their real name hashes) whose flags, service-name fields and hop byte are arbitrary bytes
		names := []string{"A", "B", "C"}
		enc := &Netceptor{nodeID: "Z", hashLock: &sync.RWMutex{}, nameHashes: map[uint64]string{}}
		w, _ := enc.translateDataFromMessage(&MessageData{FromNode: names[verifapi.Choose(3)], ToNode: names[verifapi.Choose(3)], Data: []byte{1}})
		raw := verifapi.Bytes(19)
		copy(w[1:4], raw[0:3])
		copy(w[20:36], raw[3:19])
		return w
	case 0: // raw bytes: empty, one type byte, type byte + garbage
		raw := verifapi.BytesUpTo(2)
		verifapi.Known("empty-datagram", len(raw) == 0)
		return raw
	case 1: // well-formed data packet: every combination of known/unknown nodes and reserved/ordinary services
		names := []string{"A", "B", "C", "Q"}
		md := &MessageData{FromNode: names[verifapi.Choose(4)], ToNode: names[verifapi.Choose(4)],
			FromService: verifAnyService(), ToService: verifAnyService(), HopsToLive: verifapi.Byte()}
		if verifapi.Bool() {
			um := &UnreachableMessage{}
			verifapi.Havoc(um)
			md.Data = verifapi.JSON(um)
		} else {
			md.Data = verifapi.BytesUpTo(1)
		}
		verifapi.Known("ping-from-own-ping-service", verifapi.All(md.FromNode == "A", md.ToNode == "A", md.FromService == "ping", md.ToService == "ping"))
		enc := &Netceptor{nodeID: "Z", hashLock: &sync.RWMutex{}, nameHashes: map[uint64]string{}}
		w, _ := enc.translateDataFromMessage(md)
		return w
	case 6: // data packet with an arbitrary 36-byte header and one payload byte
		d := verifapi.Bytes(37)
		d[0] = MsgTypeData
		return d
	case 2: // routing update, every field arbitrary
		ru := &routingUpdate{}
		verifapi.Havoc(ru)
		return append([]byte{MsgTypeRoute}, verifapi.JSON(ru)...)
	case 3: // service advertisement, every field arbitrary, embedded record nil or present
		sa := &serviceAdvertisementFull{}
		verifapi.Havoc(sa)
		verifapi.Known("advertisement-without-record", sa.ServiceAdvertisement == nil)
		return append([]byte{MsgTypeServiceAdvertisement}, verifapi.JSON(sa)...)
	case 4: // reject
		return []byte{MsgTypeReject}
	default: // data packet too short to hold a header
		d := verifapi.BytesUpTo(3)
		return append([]byte{MsgTypeData}, d...)
	}
}

// verifFollowUpDatagram is a second datagram on an established session: empty, a lone type byte, a regular update of
// the peer with an arbitrary cost towards us (may evict it), an advertisement without record, or a ping for us.
func verifFollowUpDatagram() []byte {
	switch verifapi.Choose(5) {
	case 0:
		return nil
	case 1:
		return []byte{verifapi.Byte()}
	case 2:
		ru := &routingUpdate{NodeID: "B", UpdateID: "f", UpdateEpoch: 5, UpdateSequence: verifapi.Uint64(),
			Connections: map[string]float64{"A": verifapi.Float()}, ForwardingNode: "B"}
		return append([]byte{MsgTypeRoute}, verifapi.JSON(ru)...)
	case 3:
		return append([]byte{MsgTypeServiceAdvertisement}, verifapi.JSON(&serviceAdvertisementFull{Cancel: verifapi.Bool()})...)
	}
	enc := &Netceptor{nodeID: "Z", hashLock: &sync.RWMutex{}, nameHashes: map[uint64]string{}}
	w, _ := enc.translateDataFromMessage(&MessageData{FromNode: "B", ToNode: "A", FromService: verifName1(), ToService: "ping", HopsToLive: verifapi.Byte()})
	return w
}

// verifAnyService is a reserved service name or an arbitrary one-byte one.
func verifAnyService() string {
	switch verifapi.Choose(3) {
	case 0:
		return "ping"
	case 1:
		return "unreach"
	}
	return verifName1()
}

func verifRunProtocol(n *verifNode, script [][]byte, bi *BackendInfo) (*verifSession, error) {
	sess := verifNewSession(script)
	ctx, cancel := context.WithCancel(n.s.context)
	defer cancel()
	err := n.s.runProtocol(ctx, sess, bi)
	return sess, err
}

// Verif_C07_before_handshake: any single datagram as the very first thing a peer sends.
func Verif_C07_before_handshake() {
	verifapi.SelectFork(false)
	n := verifNetceptor("A")
	n.verifConn("C", 1)
	n.s.knownConnectionCosts["A"] = map[string]float64{"C": 1}
	n.s.knownConnectionCosts["C"] = map[string]float64{"A": 1}
	d := verifAnyDatagram()
	sess, _ := verifRunProtocol(n, [][]byte{d}, &BackendInfo{connectionCost: 1})
	verifapi.Cover("session-ended")
	verifapi.Assert("session-closed", *sess.closed >= 1)
	verifapi.Assert("no-lock-left-held", verifapi.HeldLocks() == 0)
	// whatever the stranger sent (including a handshake under the name of the connected peer C), the node still
	// serves its well-behaved peer: connection entry and link costs of C are intact
	_, other := n.s.connections["C"]
	verifapi.Assert("well-behaved-peer-still-connected", other)
	verifapi.Assert("well-behaved-peer-still-routed", verifapi.All(n.s.knownConnectionCosts["A"]["C"] == 1, n.s.knownConnectionCosts["C"]["A"] == 1))
}

// Verif_C07_after_handshake: a correct handshake from peer B, then any datagram.
func Verif_C07_after_handshake() {
	verifapi.SelectFork(false)
	n := verifNetceptor("A")
	n.verifConn("C", 1)
	n.s.knownConnectionCosts["C"] = map[string]float64{"A": 1}
	n.s.knownNodeInfo["C"] = &nodeInfo{Epoch: 1, Sequence: 1}
	n.s.serviceAdsReceived["C"] = map[string]*ServiceAdvertisement{"s": {NodeID: "C", Service: "s", Time: time.Unix(100, 0)}}
	// a service of C that was withdrawn (an advertisement older than the withdrawal may still arrive)
	n.s.serviceAdsWithdrawn = map[string]map[string]time.Time{"C": {"w": time.Unix(200, 0)}}
	d := verifAnyDatagram()
	script := [][]byte{verifHandshake("B", 1), d}
	if verifapi.Tier() == 1 {
		// thorough: a second datagram after the arbitrary one (if the session is still up), from a smaller menu
		script = append(script, verifFollowUpDatagram())
	}
	sess, _ := verifRunProtocol(n, script, &BackendInfo{connectionCost: 1})
	verifapi.Cover("session-ended")
	verifapi.Assert("session-closed", *sess.closed >= 1)
	verifapi.Assert("no-lock-left-held", verifapi.HeldLocks() == 0)
	_, still := n.s.connections["B"]
	verifapi.Assert("connection-forgotten-when-session-ends", !still)
	_, other := n.s.connections["C"]
	verifapi.Assert("other-peer-unaffected", other)
}

// Verif_C07_table_terminates: the routing-table computation finishes for every connection picture
// that received messages can install (costs are whatever a peer put into its update).
func Verif_C07_table_terminates() {
	n := verifNetceptor("A")
	s := n.s
	n.verifConn("B", 1)
	s.knownConnectionCosts["A"] = map[string]float64{"B": 1}
	s.knownConnectionCosts["B"] = map[string]float64{"A": 1}
	// the picture is installed by the real update handler from two received updates with arbitrary costs
	cBC, cCB := verifapi.Float(), verifapi.Float()
	verifapi.Known("non-positive-cost-in-update", verifapi.Any(cBC <= 0, cCB <= 0))
	kb := map[string]float64{"A": 1}
	verifapi.PutIf(kb, "C", cBC, verifapi.Bool())
	kc := map[string]float64{}
	verifapi.PutIf(kc, "B", cCB, verifapi.Bool())
	s.handleRoutingUpdate(&routingUpdate{NodeID: "B", UpdateID: "u1", UpdateEpoch: 1, UpdateSequence: 1, Connections: kb, ForwardingNode: "B"}, "B")
	s.handleRoutingUpdate(&routingUpdate{NodeID: "C", UpdateID: "u2", UpdateEpoch: 1, UpdateSequence: 1, Connections: kc, ForwardingNode: "B"}, "B")
	verifapi.Quiesce()
	verifapi.SetUnwind(12, "routing-table-computation-terminates")
	s.updateRoutingTable()
	verifapi.SetUnwind(100000, "")
	verifapi.Cover("table-computed")
	verifapi.Assert("lock-released", verifapi.HeldLocks() == 0)
}

// Verif_C07_updates_while_the_table_is_being_rebuilt: the node's table-rebuild runner is the real
// arrangement - ONE goroutine that receives rebuild requests and runs updateRoutingTable itself (as
// tickrunner.Run does). A peer's well-formed routing updates that change the picture keep arriving
// while a rebuild is under way: two updates in a row, the second one reaching the handler when the
// runner is already inside (or queued for) the rebuild. Nothing wedges: both updates are handled, the
// runner comes back to wait for requests, no lock stays held.
func Verif_C07_updates_while_the_table_is_being_rebuilt() {
	n := verifNetceptor("A")
	s := n.s
	n.verifConn("B", 1)
	s.knownConnectionCosts["A"] = map[string]float64{"B": 1}
	s.knownConnectionCosts["B"] = map[string]float64{"A": 1}
	s.knownNodeInfo["B"] = &nodeInfo{Epoch: 1, Sequence: 1}
	// the runner: receives a request, rebuilds, receives the next ...
	s.updateRoutingTableChan = make(chan time.Duration)
	rebuilds := 0
	go func() {
		for range s.updateRoutingTableChan {
			s.updateRoutingTable()
			rebuilds++
		}
	}()
	verifapi.ExploreSchedules(verifapi.Tier())
	handled := make(chan bool, 2)
	go func() {
		s.handleRoutingUpdate(&routingUpdate{NodeID: "B", UpdateID: "g1", UpdateEpoch: 1, UpdateSequence: 2,
			Connections: map[string]float64{"A": 1, "G": 1}, ForwardingNode: "B"}, "B")
		s.handleRoutingUpdate(&routingUpdate{NodeID: "B", UpdateID: "g2", UpdateEpoch: 1, UpdateSequence: 3,
			Connections: map[string]float64{"A": 1, "H": 1}, ForwardingNode: "B"}, "B")
		handled <- true
	}()
	verifapi.Quiesce()
	verifapi.ExploreSchedules(0)
	verifapi.Cover("two-updates-during-rebuilds")
	select {
	case <-handled:
	default:
		verifapi.Assert("routing-updates-are-handled-while-a-rebuild-is-under-way", false)
	}
	verifapi.Assert("picture-is-the-latest-update", len(s.knownConnectionCosts["B"]) == 2 && s.knownConnectionCosts["B"]["H"] == 1)
	verifapi.Assert("rebuilds-ran", rebuilds >= 1)
	verifapi.Assert("no-lock-left-held", verifapi.HeldLocks() == 0)
}
