package controlsvc

import (
	"context"
	"crypto/tls"
	"fmt"
	"io"
	"net"
	"time"

	"github.com/ansible/receptor/internal/verifapi"
	"github.com/ansible/receptor/pkg/logger"
	"github.com/ansible/receptor/pkg/netceptor"
)

// C08 - no control-service input can crash or wedge a node.

type verifNode struct{ lg *logger.ReceptorLogger }

func (n *verifNode) ListenAndAdvertise(service string, tlscfg *tls.Config, tags map[string]string) (*netceptor.Listener, error) {
	return nil, fmt.Errorf("not available")
}

func (n *verifNode) GetClientTLSConfig(name string, expectedHostName string, t netceptor.ExpectedHostnameType) (*tls.Config, error) {
	if name == "" {
		return nil, nil
	}
	return nil, fmt.Errorf("unknown TLS config %s", name)
}

func (n *verifNode) Dial(node string, service string, tlscfg *tls.Config) (*netceptor.Conn, error) {
	return nil, fmt.Errorf("no route to node")
}

func (n *verifNode) Ping(ctx context.Context, target string, hopsToLive byte) (time.Duration, string, error) {
	return 0, "", fmt.Errorf("no route to node")
}
func (n *verifNode) MaxForwardingHops() byte { return 5 }
func (n *verifNode) Status() netceptor.Status {
	return netceptor.Status{NodeID: "A", RoutingTable: map[string]string{"B": "B"}}
}

func (n *verifNode) Traceroute(ctx context.Context, target string) <-chan *netceptor.TracerouteResult {
	ch := make(chan *netceptor.TracerouteResult)
	close(ch)
	return ch
}
func (n *verifNode) NodeID() string                    { return "A" }
func (n *verifNode) GetLogger() *logger.ReceptorLogger { return n.lg }
func (n *verifNode) CancelBackends()                   {}

// verifConn is a scripted connection: Read hands out the script one byte at a time (the way the
// session loop reads), optionally with empty reads in between, then EOF; writes are recorded.
type verifConn struct {
	script []byte
	pos    int
	writes *[][]byte
	closed *int
	stutter bool
	tick    int
}

type verifAddr struct{}

func (verifAddr) Network() string { return "tcp" }
func (verifAddr) String() string  { return "peer" }

func (c *verifConn) Read(b []byte) (int, error) {
	if c.stutter {
		c.tick++
		if c.tick%2 == 1 {
			return 0, nil
		}
	}
	if c.pos >= len(c.script) {
		return 0, io.EOF
	}
	if len(b) == 0 {
		return 0, nil
	}
	b[0] = c.script[c.pos]
	c.pos++
	return 1, nil
}

func (c *verifConn) Write(b []byte) (int, error) {
	*c.writes = append(*c.writes, append([]byte{}, b...))
	return len(b), nil
}
func (c *verifConn) Close() error                       { *c.closed++; return nil }
func (c *verifConn) LocalAddr() net.Addr                { return verifAddr{} }
func (c *verifConn) RemoteAddr() net.Addr               { return verifAddr{} }
func (c *verifConn) SetDeadline(t time.Time) error      { return nil }
func (c *verifConn) SetReadDeadline(t time.Time) error  { return nil }
func (c *verifConn) SetWriteDeadline(t time.Time) error { return nil }

func verifNewConn(script []byte) *verifConn {
	return &verifConn{script: script, writes: &[][]byte{}, closed: new(int)}
}

// a mock one-letter command so that dispatch is reachable within a few arbitrary bytes
type verifXType struct{}
type verifXCmd struct{}

func (verifXType) InitFromString(string) (ControlCommand, error)               { return verifXCmd{}, nil }
func (verifXType) InitFromJSON(map[string]interface{}) (ControlCommand, error) { return verifXCmd{}, nil }
func (verifXCmd) ControlFunc(context.Context, NetceptorForControlCommand, ControlFuncOperations) (map[string]interface{}, error) {
	return map[string]interface{}{"ok": true}, nil
}

func verifServer() *Server {
	s := New(true, &verifNode{lg: logger.NewReceptorLogger("")})
	MainInstance = s
	_ = s.AddControlFunc("x", verifXType{})
	return s
}

func verifIsError(w []byte) bool {
	return len(w) >= 5 && w[0] == 'E' && w[1] == 'R' && w[2] == 'R' && w[3] == 'O' && w[4] == 'R'
}

// Verif_C08_session_bytes: ANY request line of up to 4 bytes (thorough: 5), terminated by a newline
// or by an abrupt disconnect, followed by a well-formed command. The session does not panic, every
// non-empty line that does not name a valid command is answered with a line starting with ERROR, the
// well-formed command that follows is still answered, the connection is closed exactly once at the end.
func Verif_C08_session_bytes() {
	s := verifServer()
	n := 4 + verifapi.Tier()
	line := verifapi.BytesUpTo(n)
	for i := range line {
		verifapi.Assume(line[i] != '\n')
	}
	terminated := verifapi.Bool()
	script := append([]byte{}, line...)
	if terminated {
		script = append(script, '\n')
		script = append(script, []byte("x\n")...)
	}
	conn := verifNewConn(script)
	conn.stutter = verifapi.Bool()
	s.RunControlSession(conn)
	verifapi.Cover("session-ended")
	verifapi.Assert("connection-closed-once", *conn.closed == 1)
	w := *conn.writes
	verifapi.Assert("banner-sent", len(w) >= 1 && !verifIsError(w[0]))
	// the request as the server sees it: carriage returns are dropped
	var req []byte
	for _, b := range line {
		if b != '\r' {
			req = append(req, b)
		}
	}
	if !terminated {
		// abrupt disconnect in the middle of a line: whatever was read is still treated as a request
		return
	}
	verifapi.Assert("following-command-still-answered", len(w) >= 2 && !verifIsError(w[len(w)-1]))
	answers := w[1 : len(w)-1]
	if len(req) == 0 {
		verifapi.Cover("empty-line")
		verifapi.Assert("empty-line-not-answered", len(answers) == 0)
		return
	}
	// is it the mock command "x" (any letter case), alone or followed by a space and parameters?
	isX := verifapi.All(verifapi.Any(req[0] == 'x', req[0] == 'X'), verifapi.Any(len(req) == 1, len(req) > 1 && req[1] == ' '))
	if isX {
		verifapi.Cover("valid-command")
		verifapi.Assert("valid-command-answered-once-without-error", len(answers) == 1 && !verifIsError(answers[0]))
	} else {
		verifapi.Cover("invalid-request")
		verifapi.Assert("invalid-request-answered", len(answers) >= 1)
		verifapi.Assert("invalid-request-answered-with-ERROR", verifIsError(answers[0]))
		for _, a := range answers {
			verifapi.Assert("only-error-lines-for-an-invalid-request", verifIsError(a))
		}
	}
}

// verifAnyJSON returns a JSON value of the k-th kind: nothing(absent), null, bool, number, string, list, object.
func verifAnyJSON(k int) (interface{}, bool) {
	switch k {
	case 1:
		return nil, true
	case 2:
		return verifapi.Bool(), true
	case 3:
		return []float64{0, 1, -1, 2.5}[verifapi.Choose(4)], true
	case 4:
		return verifapi.StringUpTo(1), true
	case 5:
		if verifapi.Bool() {
			return []interface{}{}, true
		}
		e, _ := verifAnyJSON(2 + verifapi.Choose(3))
		return []interface{}{e}, true
	case 6:
		return map[string]interface{}{"k": "v"}, true
	}
	return nil, false
}

// Verif_C08_builtin_json: every built-in command (status, ping, connect, traceroute, reload) given as
// a JSON line whose fields are each absent or present with every JSON type, sent through the real
// session loop (JSON decoding included): no panic, an answer is written, a request the command rejects
// is answered with ERROR, and the session survives to answer the next command.
func Verif_C08_builtin_json() {
	s := verifServer()
	type spec struct {
		name string
		keys []string
	}
	cmds := []spec{{"status", []string{"requested_fields"}}, {"ping", []string{"target"}}, {"traceroute", []string{"target"}},
		{"connect", []string{"node", "service", "tls"}}, {"reload", nil}, {"nosuch", nil}}
	c := cmds[verifapi.Choose(len(cmds))]
	req := map[string]interface{}{}
	switch verifapi.Choose(3) {
	case 0:
		req["command"] = c.name
	case 1: // command of a wrong type
		v, _ := verifAnyJSON(1 + verifapi.Choose(3))
		req["command"] = v
	case 2: // no command at all
	}
	for _, k := range c.keys {
		if v, ok := verifAnyJSON(verifapi.Choose(7)); ok {
			req[k] = v
		}
	}
	verifapi.Known("requested_fields-not-a-list", false)
	script := append(verifapi.JSON(req), '\n')
	script = append(script, []byte("x\n")...)
	conn := verifNewConn(script)
	s.RunControlSession(conn)
	verifapi.Cover("session-ended")
	w := *conn.writes
	verifapi.Assert("connection-closed-once", *conn.closed == 1)
	verifapi.Assert("request-answered-and-next-command-too", len(w) >= 3)
	verifapi.Assert("next-command-answered-without-error", !verifIsError(w[len(w)-1]))
	cmdStr, isStr := req["command"].(string)
	if !isStr || cmdStr == "nosuch" {
		verifapi.Cover("not-a-command")
		verifapi.Assert("bad-request-answered-with-ERROR", verifIsError(w[1]))
	}
}

// verifSameAnswer compares two response writes: error lines byte for byte, JSON answers by value.
func verifSameAnswer(a, b []byte) bool {
	if verifIsError(a) || verifIsError(b) {
		return verifapi.All(verifIsError(a), verifIsError(b), verifapi.SameBytes(a, b))
	}
	var ma, mb map[string]interface{}
	return verifapi.All(verifapi.FromJSON(a, &ma), verifapi.FromJSON(b, &mb), verifapi.DeepEqual(ma, mb))
}

// Verif_C08_request_sequence: two requests on ONE session: a first request of any of the JSON shapes
// of Verif_C08_builtin_json (accepted or rejected), or a plain-text one, followed by a well-formed
// built-in request (plain or JSON). The second request is answered exactly as the same request is
// answered on a fresh session: nothing of an earlier request - accepted or not - leaks into a later one.
func Verif_C08_request_sequence() {
	type spec struct {
		name string
		keys []string
	}
	var first []byte
	if verifapi.Bool() {
		cmds := []spec{{"status", []string{"requested_fields"}}, {"ping", []string{"target"}}, {"connect", []string{"node", "service"}}, {"nosuch", []string{"requested_fields", "target"}}}
		c := cmds[verifapi.Choose(len(cmds))]
		req := map[string]interface{}{"command": c.name}
		for _, k := range c.keys {
			if v, ok := verifAnyJSON(verifapi.Choose(7)); ok {
				req[k] = v
			}
		}
		first = verifapi.JSON(req)
	} else {
		first = [][]byte{[]byte("status"), []byte("status NodeID"), []byte("ping B"), []byte("nosuch"), []byte("x")}[verifapi.Choose(5)]
	}
	var second []byte
	switch verifapi.Choose(5) {
	case 0:
		second = []byte("status")
	case 1:
		second = verifapi.JSON(map[string]interface{}{"command": "status"})
	case 2:
		second = []byte("ping B")
	case 3:
		second = verifapi.JSON(map[string]interface{}{"command": "ping", "target": "B"})
	case 4:
		second = verifapi.JSON(map[string]interface{}{"command": "status", "requested_fields": []interface{}{"NodeID"}})
	}
	run := func(lines ...[]byte) [][]byte {
		var script []byte
		for _, l := range lines {
			script = append(append(script, l...), '\n')
		}
		conn := verifNewConn(script)
		verifServer().RunControlSession(conn)
		verifapi.Assert("connection-closed-once", *conn.closed == 1)
		return *conn.writes
	}
	alone := run(second)
	verifapi.Assert("fresh-session-answers-the-request", len(alone) == 2)
	seq := run(first, second)
	verifapi.Cover("two-requests-on-one-session")
	verifapi.Assert("both-requests-answered", len(seq) >= 3)
	verifapi.Assert("later-request-answered-as-on-a-fresh-session", verifSameAnswer(seq[len(seq)-1], alone[1]))
}

// verifListener hands out the given connections, then blocks until closed.
type verifListener struct {
	conns []net.Conn
	done  chan struct{}
}

func (l *verifListener) Accept() (net.Conn, error) {
	if len(l.conns) > 0 {
		c := l.conns[0]
		l.conns = l.conns[1:]
		return c, nil
	}
	<-l.done
	return nil, fmt.Errorf("use of closed network connection")
}
func (l *verifListener) Close() error   { return nil }
func (l *verifListener) Addr() net.Addr { return verifAddr{} }

// Verif_C08_silent_client_does_not_block_others: the accept loop of a TLS control listener gets a
// client that connects and then says nothing (its handshake stays pending - crypto/tls replaced by a
// model whose Handshake blocks until released), followed by an ordinary client. The second client is
// greeted and its well-formed command answered while the first is still pending; when the first finally
// fails its handshake its socket is closed, and the loop ends with the listener's context.
func Verif_C08_silent_client_does_not_block_others() {
	s := verifServer()
	release := make(chan struct{})
	handshakes := 0
	closedTLS := 0
	verifapi.Redirect("(*crypto/tls.Conn).Handshake", func(c *tls.Conn) error {
		handshakes++
		<-release
		return fmt.Errorf("tls: first record does not look like a TLS handshake")
	})
	verifapi.Redirect("(*crypto/tls.Conn).SetDeadline", func(c *tls.Conn, t time.Time) error { return nil })
	verifapi.Redirect("(*crypto/tls.Conn).Close", func(c *tls.Conn) error { closedTLS++; return nil })
	silent := new(tls.Conn)
	second := verifNewConn([]byte("x\n"))
	li := &verifListener{conns: []net.Conn{silent, second}, done: make(chan struct{})}
	ctx, cancel := context.WithCancel(context.Background())
	finished := make(chan struct{})
	go func() {
		s.ConnectionListener(ctx, li)
		close(finished)
	}()
	verifapi.Quiesce()
	verifapi.Cover("first-client-pending")
	verifapi.Assert("silent-client-is-in-its-handshake", handshakes == 1 && closedTLS == 0)
	w := *second.writes
	verifapi.Assert("second-client-served-while-the-first-is-pending", len(w) >= 2 && !verifIsError(w[len(w)-1]))
	verifapi.Assert("second-client-s-session-finished", *second.closed >= 1)
	close(release)
	verifapi.Quiesce()
	verifapi.Assert("failed-handshake-closes-its-socket", closedTLS == 1)
	cancel()
	close(li.done)
	verifapi.Quiesce()
	select {
	case <-finished:
	default:
		verifapi.Assert("accept-loop-ends-with-its-context", false)
	}
}

// Verif_C05_results_stream_written_completely (property C05): the real SockControl.WriteToConn, which
// copies the results channel of a unit onto the control connection: 1..4 chunks, each either exactly
// one full read buffer (65536 bytes, as a reader working through a backlog delivers) or a short one,
// then the end of the stream. Everything handed over is on the connection, in order, when it returns -
// also when the LAST chunk is a full one.
func Verif_C05_results_stream_written_completely() {
	conn := verifNewConn(nil)
	sc := NewSockControl(conn)
	n := 1 + verifapi.Choose(4)
	ch := make(chan []byte, 4)
	total := 0
	var marks []byte
	for i := 0; i < n; i++ {
		size := 65536
		if verifapi.Bool() {
			size = 3
		}
		b := make([]byte, size)
		b[0] = byte(i + 1)
		marks = append(marks, byte(i+1))
		total += size
		ch <- b
	}
	close(ch)
	err := sc.WriteToConn("Streaming results for work unit u\n", ch)
	verifapi.Cover("stream-ended")
	verifapi.Assert("write-reports-success", err == nil)
	got := 0
	var seen []byte
	for i, w := range *conn.writes {
		if i == 0 {
			continue // the header line
		}
		if len(w) > 0 {
			seen = append(seen, w[0])
		}
		got += len(w)
	}
	verifapi.Assert("every-byte-handed-over-is-written", got == total)
	verifapi.Assert("chunks-in-order", len(seen) >= 1 && seen[0] == marks[0])
}
