package tickrunner

import (
	"context"
	"time"

	"github.com/ansible/receptor/internal/verifapi"
)

// C01 - the tick runner behind routing-table recalculation and route flooding: a request for "within
// r" arms the next run no later than now+r and never later than the periodic time; several requests
// before the run coalesce into a single run; after a run the periodic schedule is re-armed.
func Verif_C01_tick_coalesce() {
	ctx, cancel := context.WithCancel(context.Background())
	runs := new(int)
	period := 10 * time.Second
	def := 100 * time.Millisecond
	ch := Run(ctx, func() { *runs++ }, period, def)
	verifapi.Quiesce()
	if verifapi.Engine() {
		verifapi.Assert("periodic-timer-armed", verifapi.PendingTimer() <= period)
	}
	k := 1 + verifapi.Choose(2+verifapi.Tier())
	minReq := time.Duration(1 << 62)
	for i := 0; i < k; i++ {
		r := time.Duration(verifapi.Int64())
		verifapi.Assume(r >= 0 && r <= time.Hour)
		eff := r
		if r == 0 {
			eff = def
		}
		if eff < minReq {
			minReq = eff
		}
		ch <- r
		verifapi.Quiesce()
		if verifapi.Engine() {
			// the timer now armed expires no later than the earliest request so far, and no later than the period
			verifapi.Assert("request-honoured-in-time", verifapi.PendingTimer() <= minReq)
			verifapi.Assert("never-later-than-periodic", verifapi.PendingTimer() <= period)
			verifapi.Assert("one-timer-at-a-time", verifapi.PendingTimers() == 1)
		}
	}
	verifapi.Assert("task-not-run-before-its-time", *runs == 0)
	verifapi.AdvanceTime(minReq + time.Millisecond)
	verifapi.Quiesce()
	verifapi.Cover("ran")
	verifapi.Assert("requests-coalesce-into-one-run", *runs == 1)
	if verifapi.Engine() {
		verifapi.Assert("periodic-schedule-rearmed", verifapi.All(verifapi.PendingTimers() == 1, verifapi.PendingTimer() <= period))
	}
	cancel()
	verifapi.Quiesce()
	verifapi.Assert("stops-with-context", verifapi.Blocked())
}
