package certificates

import (
	"crypto/rsa"
	"crypto/x509"
	"crypto/x509/pkix"
	"io"
	"net"

	"github.com/ansible/receptor/internal/verifapi"
)

// C20, request side: a certificate request made by the built-in tooling asks for exactly the names it
// was given. The encoder (utils.MakeReceptorSAN) is decided by Verif_C20_san_roundtrip; here its inputs
// are captured: for every combination of 0..2 DNS names, 0..1 IP addresses and 0..2 node IDs (none at
// all included) the request's name extension is built from exactly those lists, and it is that
// extension that goes into the request handed to crypto/x509.
func Verif_C20_request_names_exactly_what_was_asked() {
	var gotDNS []string
	var gotIPs []net.IP
	var gotIDs []string
	calls := 0
	marker := &pkix.Extension{Value: []byte{0x42}}
	verifapi.Redirect("github.com/ansible/receptor/pkg/utils.MakeReceptorSAN", func(dnsNames []string, ipAddresses []net.IP, nodeIDs []string) (*pkix.Extension, error) {
		calls++
		gotDNS, gotIPs, gotIDs = dnsNames, ipAddresses, nodeIDs
		return marker, nil
	})
	var template *x509.CertificateRequest
	verifapi.Redirect("crypto/x509.CreateCertificateRequest", func(rand io.Reader, t *x509.CertificateRequest, priv any) ([]byte, error) {
		template = t
		return []byte{1}, nil
	})
	verifapi.Redirect("crypto/x509.ParseCertificateRequest", func(der []byte) (*x509.CertificateRequest, error) {
		return &x509.CertificateRequest{}, nil
	})
	opts := &CertOptions{CommonName: "alice"}
	opts.DNSNames = [][]string{nil, {"d1"}, {"d1", "d2"}}[verifapi.Choose(3)]
	if verifapi.Bool() {
		opts.IPAddresses = []net.IP{{10, 0, 0, 1}}
	}
	opts.NodeIDs = [][]string{nil, {}, {"n1"}, {"alice"}, {"n1", "n2"}}[verifapi.Choose(5)]
	req, err := CreateCertReq(opts, &rsa.PrivateKey{})
	verifapi.Cover("request-made")
	verifapi.Assert("request-created", err == nil && req != nil)
	verifapi.Assert("name-extension-encoded-once", calls == 1)
	same := func(a, b []string) bool {
		if len(a) != len(b) {
			return false
		}
		for i := range a {
			if a[i] != b[i] {
				return false
			}
		}
		return true
	}
	verifapi.Assert("node-ids-are-exactly-the-requested-ones", same(gotIDs, opts.NodeIDs))
	verifapi.Assert("dns-names-are-exactly-the-requested-ones", same(gotDNS, opts.DNSNames))
	verifapi.Assert("ip-addresses-are-exactly-the-requested-ones", len(gotIPs) == len(opts.IPAddresses))
	verifapi.Assert("request-carries-that-extension-and-no-other-names", verifapi.All(template != nil, len(template.ExtraExtensions) == 1,
		len(template.ExtraExtensions[0].Value) == 1, template.ExtraExtensions[0].Value[0] == 0x42,
		len(template.DNSNames) == 0, len(template.IPAddresses) == 0, template.Subject.CommonName == "alice"))
}

// Verif_C20_tooling_passes_node_ids_through: the cert-makereq command (MakeReqConfig.Run) with node IDs
// that contain bytes which mean something to a command line - a comma, a space, an equals sign, a colon,
// or any one arbitrary byte: node IDs are arbitrary strings and the request asks for exactly the IDs
// the caller named, each one whole (MakeReq replaced by a capture of its options).
func Verif_C20_tooling_passes_node_ids_through() {
	var got *CertOptions
	verifapi.Redirect("github.com/ansible/receptor/pkg/certificates.MakeReq", func(opts *CertOptions, keyIn, keyOut, reqOut string, osWrapper Oser) error {
		got = opts
		return nil
	})
	var id string
	switch verifapi.Choose(6) {
	case 0:
		id = "site-a,rack-7"
	case 1:
		id = "a b"
	case 2:
		id = "k=v"
	case 3:
		id = "n:1"
	case 4:
		id = ","
	case 5:
		id = "x" + verifapi.String(1) + "y"
	}
	second := verifapi.Bool()
	ids := []string{id}
	if second {
		ids = append(ids, "other")
	}
	mr := MakeReqConfig{CommonName: "cn", Bits: 2048, NodeID: ids, DNSName: []string{"host.example"}, OutReq: "/r", OutKey: "/k"}
	err := mr.Run()
	verifapi.Cover("request-made")
	verifapi.Assert("request-made-without-error", err == nil && got != nil)
	verifapi.Assert("as-many-node-ids-as-were-named", len(got.NodeIDs) == len(ids))
	verifapi.Assert("each-node-id-passed-through-whole", verifapi.All(got.NodeIDs[0] == id, !second || got.NodeIDs[1] == "other"))
	verifapi.Assert("dns-names-passed-through", len(got.DNSNames) == 1 && got.DNSNames[0] == "host.example")
}
