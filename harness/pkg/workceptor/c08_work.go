package workceptor

import (
	"os"

	"github.com/ansible/receptor/internal/verifapi"
)

// C08 (work command part) - no "work" request can crash or wedge a node.

func verifAnyJSONValue(k int) (interface{}, bool) {
	switch k {
	case 1:
		return nil, true
	case 2:
		return verifapi.Bool(), true
	case 3:
		return []float64{0, 1, -1, 2.5}[verifapi.Choose(4)], true
	case 4:
		return verifapi.StringUpTo(1), true
	case 5:
		return []interface{}{"a"}, true
	case 6:
		return map[string]interface{}{"k": "v"}, true
	}
	return nil, false
}

// Verif_C08_work_json: every work subcommand (and an unknown one) as JSON with each field absent or of
// any JSON type, and unit IDs that are known, exist only on disk, are unknown, or contain path
// characters: the command returns (a result or an error), never panics, never blocks, leaves no lock
// held, and a unit ID with path characters never reaches anything outside the unit directories.
func Verif_C08_work_json() {
	dir := verifapi.TempDir()
	wk := verifWorkceptor(dir)
	verifapi.Assert("register", wk.w.RegisterWorker("cmd", verifCmdCfg().NewWorker, false) == nil)
	verifapi.FixRandom("unit0013", "unit0016", "unit0017")
	known, err := wk.w.AllocateUnit("cmd", map[string]string{})
	verifapi.Assert("allocated", err == nil)
	known.UpdateBasicStatus(WorkStateSucceeded, "done", 0)
	// a unit that exists only on disk
	verifapi.Assert("mkdir", osMkdirAll(dir+"/A/unit0014") == nil)
	verifapi.Assert("record", (&StatusFileData{State: WorkStateFailed, Detail: "d", WorkType: "cmd"}).Save(dir+"/A/unit0014/status") == nil)
	// a file next to the data directory that no request may touch
	verifapi.Assert("outside-file", os.WriteFile(dir+"/precious", []byte("p"), 0o600) == nil)

	sub := []string{"status", "cancel", "release", "force-release", "results", "list", "submit", "bogus", "STATUS"}[verifapi.Choose(9)]
	cfg := map[string]interface{}{"command": "work", "subcommand": sub}
	switch verifapi.Choose(4) {
	case 0:
		cfg["unitid"] = []string{known.ID(), "unit0014", "nope", "..", ".", "", "../precious", known.ID() + "/status", "a/b",
			known.ID() + "/status/x", known.ID() + "/status/..", string(make([]byte, 256))}[verifapi.Choose(12)]
	case 1:
		if v, ok := verifAnyJSONValue(1 + verifapi.Choose(6)); ok {
			cfg["unitid"] = v
		}
	case 2: // absent
	case 3:
		cfg["unitid"] = known.ID()
		if v, ok := verifAnyJSONValue(verifapi.Choose(7)); ok {
			cfg["startpos"] = v
		}
		if v, ok := verifAnyJSONValue(verifapi.Choose(7)); ok {
			cfg["signature"] = v
		}
	}
	if sub == "submit" {
		if v, ok := verifAnyJSONValue(verifapi.Choose(7)); ok {
			cfg["node"] = v
		}
		if v, ok := verifAnyJSONValue(verifapi.Choose(7)); ok {
			cfg["worktype"] = v
		}
	}
	cfo := verifNewCFO("unix")
	_, _ = wk.verifCommand(cfo, cfg)
	verifapi.Quiesce()
	verifapi.Cover("command-returned")
	verifapi.Assert("no-lock-left-held", verifapi.HeldLocks() == 0)
	p, perr := os.ReadFile(dir + "/precious")
	verifapi.Assert("nothing-outside-the-unit-directories-touched", verifapi.All(perr == nil, len(p) == 1))
	_, e1 := os.Stat(dir + "/A")
	verifapi.Assert("data-directory-survives", e1 == nil)
	// the manager still answers a well-formed request afterwards
	st, serr := wk.verifCommand(verifNewCFO("unix"), map[string]interface{}{"command": "work", "subcommand": "list"})
	verifapi.Assert("later-request-still-answered", serr == nil && st != nil)
	wk.cancel()
	verifapi.Quiesce()
}

// Verif_C08_work_string: the plain-text form "work <tokens>" with up to four tokens drawn from
// subcommand names, unit IDs, numbers and junk: InitFromString + ControlFunc never panic or block.
func Verif_C08_work_string() {
	dir := verifapi.TempDir()
	wk := verifWorkceptor(dir)
	verifapi.Assert("register", wk.w.RegisterWorker("cmd", verifCmdCfg().NewWorker, false) == nil)
	verifapi.FixRandom("unit0015", "unit0018", "unit0019")
	known, err := wk.w.AllocateUnit("cmd", map[string]string{})
	verifapi.Assert("allocated", err == nil)
	known.UpdateBasicStatus(WorkStateFailed, "done", 0)
	words := []string{"", "status", "list", "results", "release", "cancel", "submit", known.ID(), "nope", "..", "-1", "7", "x", "A", "cmd"}
	n := verifapi.Choose(4 + verifapi.Tier())
	line := ""
	for i := 0; i < n; i++ {
		if i > 0 {
			line += " "
		}
		if i == 0 {
			line += words[verifapi.Choose(7)]
		} else {
			line += words[verifapi.Choose(len(words))]
		}
	}
	t := &workceptorCommandType{w: wk.w}
	cmd, err := t.InitFromString(line)
	if err == nil {
		cfo := verifNewCFO("unix")
		_, _ = cmd.ControlFunc(verifCtx(), wk.ncc(), cfo)
	}
	verifapi.Quiesce()
	verifapi.Cover("command-returned")
	verifapi.Assert("no-lock-left-held", verifapi.HeldLocks() == 0)
	wk.cancel()
	verifapi.Quiesce()
}

// verifSlowFS is a FileSystemer whose RemoveAll is a scheduling point (directory removal takes time).
type verifSlowFS struct{ FileSystem }

func (verifSlowFS) RemoveAll(p string) error {
	verifapi.Yield()
	err := os.RemoveAll(p)
	verifapi.Yield()
	return err
}

// Verif_C08_two_sessions: two control sessions at the same time - one lists all units (or asks for the
// status of one), the other releases a unit or submits a new one - under every schedule within the
// pre-emption bound: both commands return (no deadlock, in particular none on the unit index lock),
// and a third, later command is still answered.
func Verif_C08_two_sessions() {
	dir := verifapi.TempDir()
	wk := verifWorkceptor(dir)
	verifapi.Assert("register", wk.w.RegisterWorker("cmd", verifCmdCfg().NewWorker, false) == nil)
	verifapi.Assert("mkdir", osMkdirAll(dir+"/A/unit0020") == nil)
	bwu := &BaseWorkUnit{}
	bwu.Init(wk.w, "unit0020", "cmd", verifSlowFS{}, nil)
	verifapi.Assert("saved", bwu.Save() == nil)
	wk.w.activeUnits["unit0020"] = &unknownUnit{BaseWorkUnit: *bwu}
	verifapi.FixRandom("unit0021", "unit0022")
	other, err := wk.w.AllocateUnit("cmd", map[string]string{})
	verifapi.Assert("allocated", err == nil)
	other.UpdateBasicStatus(WorkStateSucceeded, "done", 0)
	first := []map[string]interface{}{
		{"command": "work", "subcommand": "list"},
		{"command": "work", "subcommand": "status", "unitid": "unit0020"},
	}[verifapi.Choose(2)]
	second := []map[string]interface{}{
		{"command": "work", "subcommand": "release", "unitid": "unit0020"},
		{"command": "work", "subcommand": "submit", "node": "A", "worktype": "cmd"},
		{"command": "work", "subcommand": "status", "unitid": "unit0021"},
	}[verifapi.Choose(3)]
	verifapi.ExploreSchedules(2 + verifapi.Tier())
	done := make(chan bool, 2)
	go func() {
		_, _ = wk.verifCommand(verifNewCFO("unix"), first)
		done <- true
	}()
	go func() {
		_, _ = wk.verifCommand(verifNewCFO("unix"), second)
		done <- true
	}()
	<-done
	<-done
	verifapi.ExploreSchedules(0)
	verifapi.Cover("both-sessions-answered")
	_, lerr := wk.verifCommand(verifNewCFO("unix"), map[string]interface{}{"command": "work", "subcommand": "list"})
	verifapi.Assert("later-command-still-answered", lerr == nil)
	verifapi.Assert("no-lock-left-held", verifapi.HeldLocks() == 0)
	wk.cancel()
	verifapi.Quiesce()
}

// Verif_C08_cancel_while_connecting: remote work was submitted to a node that is slow to answer - the
// daemon's background connection attempt is still in flight - and a cancel (or release) for that unit
// arrives. The command is answered, and afterwards list and status commands on other sessions are
// answered too: nothing is left waiting for a lock that the cancel holds.
func Verif_C08_cancel_while_connecting() {
	dir := verifapi.TempDir()
	wk := verifWorkceptor(dir)
	wk.nc.slowDial = true
	verifapi.FixRandom("unit0097")
	unit, err := wk.w.AllocateRemoteUnit("R", "echo", "tls", "", false, map[string]string{})
	verifapi.Assert("allocated", err == nil)
	go func() { _ = unit.Start() }()
	verifapi.Quiesce()
	verifapi.Assert("a-connection-attempt-is-in-flight", *wk.nc.dials >= 1)
	sub := []string{"cancel", "release", "force-release"}[verifapi.Choose(3)]
	answered := make(chan error, 1)
	go func() {
		_, cerr := wk.verifCommand(verifNewCFO("unix"), map[string]interface{}{"command": "work", "subcommand": sub, "unitid": unit.ID()})
		answered <- cerr
	}()
	verifapi.Quiesce()
	verifapi.Cover("cancel-sent-while-connecting")
	select {
	case <-answered:
	default:
		verifapi.Assert("cancel-of-a-connecting-unit-is-answered", false)
	}
	listed := make(chan error, 1)
	go func() {
		_, lerr := wk.verifCommand(verifNewCFO("tcp"), map[string]interface{}{"command": "work", "subcommand": "list"})
		listed <- lerr
	}()
	verifapi.Quiesce()
	select {
	case lerr := <-listed:
		verifapi.Assert("list-still-answered-afterwards", lerr == nil)
	default:
		verifapi.Assert("list-still-answered-afterwards", false)
	}
	wk.cancel()
	verifapi.Quiesce()
}
