package workceptor

import (
	"bufio"
	"context"
	"fmt"
	"io"
	"net"
	"os"
	"strings"
	"time"

	"github.com/ansible/receptor/internal/verifapi"
)

// A model of the remote node's control service as seen by startRemoteUnit (engine only:
// connectToRemote is replaced): it takes one "work submit" request line, answers with the creation
// line (or refuses), takes the unit's input until the connection is half-closed and answers that the
// job was started. Hooks let a harness look at the local state at the moments that matter.

type verifStartConn struct {
	refuse     bool
	line       []byte
	submit     map[string]interface{}
	replies    [][]byte
	stdin      []byte
	inputPhase bool
	onInput    func() // called when the first byte of input (or the half close) reaches the remote node
	inputSeen  bool
	closed     bool
}

func (c *verifStartConn) Write(p []byte) (int, error) {
	if c.closed {
		return 0, io.ErrClosedPipe
	}
	if c.inputPhase {
		if !c.inputSeen && len(p) > 0 {
			c.inputSeen = true
			if c.onInput != nil {
				c.onInput()
			}
		}
		c.stdin = append(c.stdin, p...)
		return len(p), nil
	}
	c.line = append(c.line, p...)
	if len(c.line) > 0 && c.line[len(c.line)-1] == '\n' {
		c.submit = map[string]interface{}{}
		verifapi.Assert("submit-request-is-json", verifapi.FromJSON(c.line[:len(c.line)-1], &c.submit))
		if c.refuse {
			c.replies = append(c.replies, []byte("ERROR: unknown work type echo\n"))
		} else {
			c.replies = append(c.replies, []byte("Work unit created with ID rem1. Send stdin data and EOF.\n"))
			c.inputPhase = true
		}
	}
	return len(p), nil
}

func (c *verifStartConn) Read(p []byte) (int, error) {
	if len(c.replies) == 0 {
		return 0, io.EOF
	}
	n := copy(p, c.replies[0])
	if n < len(c.replies[0]) {
		c.replies[0] = c.replies[0][n:]
	} else {
		c.replies = c.replies[1:]
	}
	return n, nil
}

// Close is the half close that ends the input.
func (c *verifStartConn) Close() error {
	if c.inputPhase {
		if !c.inputSeen {
			c.inputSeen = true
			if c.onInput != nil {
				c.onInput()
			}
		}
		c.replies = append(c.replies, []byte("{\"result\":\"Job Started\",\"unitid\":\"rem1\"}\n"))
		c.inputPhase = false
	}
	return nil
}
func (c *verifStartConn) CloseConnection() error             { c.closed = true; return nil }
func (c *verifStartConn) CancelRead()                        {}
func (c *verifStartConn) LocalAddr() net.Addr                { return verifAddr{"netceptor-A"} }
func (c *verifStartConn) RemoteAddr() net.Addr               { return verifAddr{"netceptor-A"} }
func (c *verifStartConn) SetDeadline(t time.Time) error      { return nil }
func (c *verifStartConn) SetReadDeadline(t time.Time) error  { return nil }
func (c *verifStartConn) SetWriteDeadline(t time.Time) error { return nil }

// Verif_C04_remote_binding_recorded_before_input_is_sent (property C04): the real startRemoteUnit against
// the model above. By the time the first byte of the unit's input reaches the remote node (the remote
// unit exists and is now doing work on our behalf), the local record on disk names the remote unit: a
// daemon killed at any later moment finds, after restart, which remote unit the local one is bound to.
func Verif_C04_remote_binding_recorded_before_input_is_sent() {
	dir := verifapi.TempDir()
	wk := verifWorkceptor(dir)
	verifapi.FixRandom("unit0061")
	unit, err := wk.w.AllocateRemoteUnit("R", "echo", "tls", "", false, map[string]string{"p": "v"})
	verifapi.Assert("allocated", err == nil)
	rw := unit.(*remoteUnit)
	input := verifapi.BytesUpTo(2)
	verifapi.Assert("input-stored", os.WriteFile(rw.UnitDir()+"/stdin", input, 0o600) == nil)
	conn := &verifStartConn{}
	checked := false
	conn.onInput = func() {
		checked = true
		disk := &StatusFileData{ExtraData: &RemoteExtraData{}}
		verifapi.Assert("record-readable-when-input-starts", disk.Load(rw.StatusFileName()) == nil)
		red, _ := disk.ExtraData.(*RemoteExtraData)
		verifapi.Assert("remote-unit-recorded-before-input-is-sent", verifapi.All(red != nil, red.RemoteNode == "R", red.RemoteUnitID == "rem1"))
	}
	serr := rw.startRemoteUnit(context.Background(), conn, bufio.NewReader(conn))
	verifapi.Quiesce()
	verifapi.Cover("remote-start-dialogue-finished")
	verifapi.Assert("remote-start-succeeds", serr == nil)
	verifapi.Assert("input-phase-reached-the-remote-node", checked)
	verifapi.Assert("input-sent-unchanged", verifapi.SameBytes(conn.stdin, input))
	final := &StatusFileData{ExtraData: &RemoteExtraData{}}
	verifapi.Assert("final-record-readable", final.Load(rw.StatusFileName()) == nil)
	fred := final.ExtraData.(*RemoteExtraData)
	verifapi.Assert("started-remote-unit-recorded", verifapi.All(fred.RemoteUnitID == "rem1", fred.RemoteStarted))
	wk.cancel()
	verifapi.Quiesce()
}

// Verif_C19_remote_refusal_discloses_nothing (property C19): a remote submission with a secret parameter
// and a TLS profile, through the real submit command; the remote node is reachable and REFUSES the
// forwarded submit (or accepts it). Neither the answer to the submitter, nor the error text, nor any
// later status or list answer (state detail included) contains the secret value; the secret was sent
// to the remote node, where it belongs.
func Verif_C19_remote_refusal_discloses_nothing() {
	dir := verifapi.TempDir()
	wk := verifWorkceptor(dir)
	const secret = "S3CR3T-VALUE"
	refuse := verifapi.Bool()
	var conns []*verifStartConn
	verifapi.Redirect("(*github.com/ansible/receptor/pkg/workceptor.remoteUnit).connectToRemote", func(u *remoteUnit, ctx context.Context) (net.Conn, *bufio.Reader, error) {
		if len(conns) > 0 {
			return nil, nil, fmt.Errorf("no route to node") // only the first, synchronous attempt reaches the remote node
		}
		c := &verifStartConn{refuse: refuse}
		conns = append(conns, c)
		return c, bufio.NewReader(c), nil
	})
	key := []string{"secret_token", "SECRET_TOKEN", "Secret_Token"}[verifapi.Choose(3)]
	verifapi.FixRandom("unit0062")
	cfo := verifNewCFO("unix")
	cfo.stdin = []byte("in")
	resp, err := wk.verifCommand(cfo, map[string]interface{}{"command": "work", "subcommand": "submit", "node": "R", "worktype": "echo",
		"tlsclient": "tls", key: secret, "plain": "p"})
	verifapi.Quiesce()
	verifapi.Cover("submit-answered")
	verifapi.Assert("remote-node-was-contacted", len(conns) == 1 && conns[0].submit != nil)
	verifapi.Assert("secret-sent-to-the-remote-node", conns[0].submit[key] == secret)
	if refuse {
		verifapi.Assert("refusal-reported-to-the-submitter", err != nil)
	}
	leaks := func(s string) bool { return strings.Contains(s, secret) }
	if err != nil {
		verifapi.Assert("error-text-does-not-disclose-the-secret", !leaks(err.Error()))
	}
	for _, m := range *cfo.messages {
		verifapi.Assert("messages-to-the-submitter-do-not-disclose-the-secret", !leaks(m))
	}
	for k, v := range resp {
		if sv, ok := v.(string); ok {
			verifapi.Assert("answer-to-the-submitter-does-not-disclose-the-secret:"+k, !leaks(sv))
		}
	}
	checkStatus := func(m map[string]interface{}) {
		if d, ok := m["Detail"].(string); ok {
			verifapi.Assert("state-detail-does-not-disclose-the-secret", !leaks(d))
		}
		if ed, ok := m["ExtraData"].(*RemoteExtraData); ok && ed != nil {
			for _, v := range ed.RemoteParams {
				verifapi.Assert("reported-parameters-do-not-disclose-the-secret", !leaks(v))
			}
			verifapi.Assert("plain-parameter-reported", ed.RemoteParams["plain"] == "p")
		}
	}
	st, serr := wk.verifCommand(verifNewCFO("tcp"), map[string]interface{}{"command": "work", "subcommand": "status", "unitid": "unit0062"})
	verifapi.Assert("status-ok", serr == nil)
	checkStatus(st)
	lst, lerr := wk.verifCommand(verifNewCFO("tcp"), map[string]interface{}{"command": "work", "subcommand": "list"})
	verifapi.Assert("list-ok", lerr == nil)
	if entry, ok := lst["unit0062"].(map[string]interface{}); ok {
		checkStatus(entry)
	} else {
		verifapi.Assert("list-has-the-unit", false)
	}
	wk.cancel()
	verifapi.Quiesce()
}
