package workceptor

import (
	"context"
	"crypto/tls"
	"fmt"
	"io"
	"net"
	"os"
	"time"

	"github.com/ansible/receptor/internal/verifapi"
	"github.com/ansible/receptor/pkg/controlsvc"
	"github.com/ansible/receptor/pkg/logger"
	"github.com/ansible/receptor/pkg/netceptor"
)

// verifNC is the netceptor a work manager sees: a node ID, named TLS client profiles, a dialler that
// never reaches the remote node (remote interactions are driven by the harnesses explicitly).
type verifNC struct {
	id       string
	lg       *logger.ReceptorLogger
	tlsNames map[string]bool
	dials    *int
	real     *netceptor.Netceptor // when set, TLS profile lookups go to a real node's profile table
	slowDial bool                 // a connection attempt takes a while: it ends only when its context is cancelled
}

func (n *verifNC) NodeID() string                                           { return n.id }
func (n *verifNC) AddWorkCommand(typeName string, verifySignature bool) error { return nil }
func (n *verifNC) GetLogger() *logger.ReceptorLogger                        { return n.lg }
func (n *verifNC) GetClientTLSConfig(name string, expectedHostName string, t netceptor.ExpectedHostnameType) (*tls.Config, error) {
	if n.real != nil {
		return n.real.GetClientTLSConfig(name, expectedHostName, t)
	}
	if name == "" {
		return nil, nil
	}
	if n.tlsNames[name] {
		return &tls.Config{}, nil
	}
	return nil, fmt.Errorf("unknown TLS config %s", name)
}

func (n *verifNC) DialContext(ctx context.Context, node string, service string, tlscfg *tls.Config) (*netceptor.Conn, error) {
	*n.dials++
	if n.slowDial {
		<-ctx.Done()
		return nil, ctx.Err()
	}
	return nil, fmt.Errorf("no route to node")
}

type verifWork struct {
	w      *Workceptor
	nc     *verifNC
	dir    string
	cancel context.CancelFunc
}

// verifWorkceptor builds a work manager for node "A" on data directory dir (a restart = a second call on the same dir).
func verifWorkceptor(dir string) *verifWork {
	ctx, cancel := context.WithCancel(context.Background())
	nc := &verifNC{id: "A", lg: logger.NewReceptorLogger(""), tlsNames: map[string]bool{"tls": true}, dials: new(int)}
	w, err := New(ctx, nc, dir)
	if err != nil {
		verifapi.Unsupported("workceptor.New failed")
	}
	MainInstance = w
	return &verifWork{w: w, nc: nc, dir: dir, cancel: cancel}
}

func osMkdirAll(p string) error { return os.MkdirAll(p, 0o700) }

// ---- control-service side stubs ----

type verifAddr struct{ network string }

func (a verifAddr) Network() string { return a.network }
func (a verifAddr) String() string  { return "peer" }

// verifCFO is the ControlFuncOperations a work command sees: the connection kind, the stdin the
// submitter sends, and a record of everything the command did with the connection.
type verifCFO struct {
	network  string
	stdin    []byte
	messages *[]string
	streamed *[]byte
	closed   *int
}

func verifNewCFO(network string) *verifCFO {
	return &verifCFO{network: network, messages: &[]string{}, streamed: &[]byte{}, closed: new(int)}
}

func (c *verifCFO) BridgeConn(message string, bc io.ReadWriteCloser, bcName string, lg *logger.ReceptorLogger, u controlsvc.Utiler) error {
	return nil
}

func (c *verifCFO) ReadFromConn(message string, out io.Writer, _ controlsvc.Copier) error {
	*c.messages = append(*c.messages, message)
	_, err := out.Write(c.stdin)
	return err
}

func (c *verifCFO) WriteToConn(message string, in chan []byte) error {
	*c.messages = append(*c.messages, message)
	for b := range in {
		*c.streamed = append(*c.streamed, b...)
	}
	return nil
}

func (c *verifCFO) Close() error         { *c.closed++; return nil }
func (c *verifCFO) RemoteAddr() net.Addr { return verifAddr{c.network} }

// verifNCC is the node a control command sees.
type verifNCC struct{ verifNC }

func (n *verifNCC) Dial(node string, service string, tlscfg *tls.Config) (*netceptor.Conn, error) {
	return nil, fmt.Errorf("no route to node")
}

func (n *verifNCC) Ping(ctx context.Context, target string, hopsToLive byte) (time.Duration, string, error) {
	return 0, "", fmt.Errorf("no route to node")
}
func (n *verifNCC) MaxForwardingHops() byte  { return 5 }
func (n *verifNCC) Status() netceptor.Status { return netceptor.Status{NodeID: n.id} }
func (n *verifNCC) Traceroute(ctx context.Context, target string) <-chan *netceptor.TracerouteResult {
	return nil
}
func (n *verifNCC) CancelBackends() {}

func (wk *verifWork) ncc() *verifNCC { return &verifNCC{*wk.nc} }

// verifCommand runs one "work" control command given as a JSON-style map through the real
// InitFromJSON + ControlFunc.
func (wk *verifWork) verifCommand(cfo *verifCFO, cfg map[string]interface{}) (map[string]interface{}, error) {
	t := &workceptorCommandType{w: wk.w}
	cmd, err := t.InitFromJSON(cfg)
	if err != nil {
		return nil, err
	}
	return cmd.ControlFunc(context.Background(), wk.ncc(), cfo)
}

func verifCtx() context.Context { return context.Background() }
