package workceptor

import (
	"context"
	"crypto/tls"
	"fmt"
	"os"

	"github.com/ansible/receptor/internal/verifapi"
	"github.com/ansible/receptor/pkg/logger"
	"github.com/ansible/receptor/pkg/netceptor"
)

// verifNC is the netceptor a work manager sees: a node ID, named TLS client profiles, a dialler that
// never reaches the remote node (remote interactions are driven by the harnesses explicitly).
type verifNC struct {
	id       string
	lg       *logger.ReceptorLogger
	tlsNames map[string]bool
	dials    *int
}

func (n *verifNC) NodeID() string                                           { return n.id }
func (n *verifNC) AddWorkCommand(typeName string, verifySignature bool) error { return nil }
func (n *verifNC) GetLogger() *logger.ReceptorLogger                        { return n.lg }
func (n *verifNC) GetClientTLSConfig(name string, expectedHostName string, t netceptor.ExpectedHostnameType) (*tls.Config, error) {
	if name == "" {
		return nil, nil
	}
	if n.tlsNames[name] {
		return &tls.Config{}, nil
	}
	return nil, fmt.Errorf("unknown TLS config %s", name)
}

func (n *verifNC) DialContext(ctx context.Context, node string, service string, tlscfg *tls.Config) (*netceptor.Conn, error) {
	*n.dials++
	return nil, fmt.Errorf("no route to node")
}

type verifWork struct {
	w      *Workceptor
	nc     *verifNC
	dir    string
	cancel context.CancelFunc
}

// verifWorkceptor builds a work manager for node "A" on data directory dir (a restart = a second call on the same dir).
func verifWorkceptor(dir string) *verifWork {
	ctx, cancel := context.WithCancel(context.Background())
	nc := &verifNC{id: "A", lg: logger.NewReceptorLogger(""), tlsNames: map[string]bool{"tls": true}, dials: new(int)}
	w, err := New(ctx, nc, dir)
	if err != nil {
		verifapi.Unsupported("workceptor.New failed")
	}
	MainInstance = w
	return &verifWork{w: w, nc: nc, dir: dir, cancel: cancel}
}

func osMkdirAll(p string) error { return os.MkdirAll(p, 0o700) }
