package workceptor

import (
	"context"
	"os"
	"time"

	"github.com/ansible/receptor/internal/verifapi"
)

// C05 - work results stream exactly the output from any offset and end when complete.

// verifDrain takes everything that is ready on the channel without blocking; closed reports the end of stream.
func verifDrainResults(ch chan []byte, into *[][]byte) (closed bool) {
	for {
		select {
		case b, ok := <-ch:
			if !ok {
				return true
			}
			// the chunk is kept as handed over (no copy): a consumer such as WriteToConn may still be
			// writing it out while the producer goes on reading, so it must not change afterwards
			*into = append(*into, b)
		default:
			return false
		}
	}
}

func verifJoin(chunks [][]byte) []byte {
	var out []byte
	for _, c := range chunks {
		out = append(out, c...)
	}
	return out
}

func verifAppend(name string, data []byte) {
	f, err := os.OpenFile(name, os.O_CREATE|os.O_APPEND|os.O_WRONLY, 0o600)
	verifapi.Assert("producer-open", err == nil)
	if len(data) > 0 {
		_, err = f.Write(data)
		verifapi.Assert("producer-write", err == nil)
	}
	verifapi.Assert("producer-close", f.Close() == nil)
}

// Verif_C05_results_stream: a unit whose output file exists (or not yet) with arbitrary content is
// followed from an arbitrary start offset while the producer appends two more chunks and finally the
// unit is recorded as finished with its final output size. The bytes delivered are exactly the output
// from the offset on, in order, without gap or repeat; the stream does not end before the unit is
// finished and everything recorded has been sent, and it does end afterwards.
func Verif_C05_results_stream() {
	dir := verifapi.TempDir()
	wk := verifWorkceptor(dir)
	verifapi.Assert("register", wk.w.RegisterWorker("cmd", verifCmdCfg().NewWorker, false) == nil)
	verifapi.FixRandom("unit0011")
	unit, err := wk.w.AllocateUnit("cmd", map[string]string{})
	verifapi.Assert("allocated", err == nil)
	out := unit.StdoutFileName()
	c0, c1, c2 := verifapi.BytesUpTo(2), verifapi.BytesUpTo(2), verifapi.BytesUpTo(1)
	existsAtStart := verifapi.Bool()
	if existsAtStart {
		verifAppend(out, c0)
	}
	unit.UpdateBasicStatus(WorkStateRunning, "running", int64(0))
	total := len(c0) + len(c1) + len(c2)
	start := verifapi.Choose(total + 2) // every offset 0..size, and one beyond
	ctx, cancel := context.WithCancel(context.Background())
	ch, err := wk.w.GetResults(ctx, unit.ID(), int64(start))
	verifapi.Assert("results-started", err == nil && ch != nil)
	var chunks [][]byte
	closed := false
	step := func() {
		for i := 0; i < 3 && !closed; i++ {
			verifapi.Quiesce()
			closed = verifDrainResults(ch, &chunks)
			verifapi.AdvanceTime(300 * time.Millisecond)
		}
		verifapi.Quiesce()
		if !closed {
			closed = verifDrainResults(ch, &chunks)
		}
	}
	step()
	verifapi.Assert("stream-open-while-unit-runs", !closed)
	if !existsAtStart {
		verifAppend(out, c0)
		step()
	}
	verifAppend(out, c1)
	step()
	verifapi.Assert("stream-still-open-while-unit-runs", !closed)
	verifAppend(out, c2)
	// the runner records the final state and size
	unit.UpdateBasicStatus(WorkStateSucceeded, "done", int64(total))
	step()
	step()
	verifapi.Cover("finished")
	verifapi.Assert("stream-ends-once-unit-finished-and-all-sent", closed)
	all := append(append(append([]byte{}, c0...), c1...), c2...)
	var want []byte
	if start <= total {
		want = all[start:]
	}
	verifapi.Assert("exactly-the-output-from-the-offset", verifapi.SameBytes(verifJoin(chunks), want))
	cancel()
	verifapi.Quiesce()
	verifapi.Assert("no-lock-left-held", verifapi.HeldLocks() == 0)
}

// Verif_C05_results_end_conditions: the stream of a unit that is already finished: with a recorded
// size equal to, smaller or larger than what is in the file, from any offset. It ends, delivers
// exactly file[offset:], and (recorded size larger than the file = the rest is still being copied)
// does not end before the missing bytes have arrived.
func Verif_C05_results_end_conditions() {
	dir := verifapi.TempDir()
	wk := verifWorkceptor(dir)
	verifapi.Assert("register", wk.w.RegisterWorker("cmd", verifCmdCfg().NewWorker, false) == nil)
	verifapi.FixRandom("unit0012")
	unit, err := wk.w.AllocateUnit("cmd", map[string]string{})
	verifapi.Assert("allocated", err == nil)
	out := unit.StdoutFileName()
	c0, c1 := verifapi.BytesUpTo(2), verifapi.BytesUpTo(2)
	verifAppend(out, c0)
	recorded := len(c0) + len(c1)
	failed := verifapi.Bool()
	state := WorkStateSucceeded
	if failed {
		state = WorkStateFailed
	}
	unit.UpdateBasicStatus(state, "done", int64(recorded))
	start := verifapi.Choose(recorded + 1)
	ctx, cancel := context.WithCancel(context.Background())
	ch, err := wk.w.GetResults(ctx, unit.ID(), int64(start))
	verifapi.Assert("results-started", err == nil && ch != nil)
	var chunks [][]byte
	closed := false
	step := func() {
		for i := 0; i < 3 && !closed; i++ {
			verifapi.Quiesce()
			closed = verifDrainResults(ch, &chunks)
			verifapi.AdvanceTime(300 * time.Millisecond)
		}
		verifapi.Quiesce()
		if !closed {
			closed = verifDrainResults(ch, &chunks)
		}
	}
	step()
	if len(c1) > 0 && start < recorded {
		verifapi.Cover("recorded-output-not-all-stored-yet")
		verifapi.Assert("stream-does-not-end-before-recorded-output-is-sent", !closed)
		verifAppend(out, c1)
		step()
	}
	if !closed {
		// nothing is missing from the offset on (the rest of the recorded output lies before it)
		verifAppend(out, c1)
		step()
	}
	verifapi.Cover("ended")
	verifapi.Assert("stream-ends", closed)
	all := append(append([]byte{}, c0...), c1...)
	verifapi.Assert("exactly-the-output-from-the-offset", verifapi.SameBytes(verifJoin(chunks), all[start:]))
	cancel()
	verifapi.Quiesce()
}

// Verif_C05_results_command_offset: the "work results" COMMAND (real InitFromJSON + ControlFunc, not
// GetResults alone) for a unit that is still running: 3 bytes of output are stored, the recorded size
// lags behind (0..3, as it does between two refreshes by the runner), the client asks for the rest from
// any offset 0..3 - e.g. a follower that lost its connection and re-asks from what it already has. Then
// two more bytes arrive and the unit finishes. The client receives exactly output[offset:].
func Verif_C05_results_command_offset() {
	dir := verifapi.TempDir()
	wk := verifWorkceptor(dir)
	verifapi.Assert("register", wk.w.RegisterWorker("cmd", verifCmdCfg().NewWorker, false) == nil)
	verifapi.FixRandom("unit0013")
	unit, err := wk.w.AllocateUnit("cmd", map[string]string{})
	verifapi.Assert("allocated", err == nil)
	out := unit.StdoutFileName()
	first, rest := verifapi.Bytes(3), verifapi.Bytes(2)
	verifAppend(out, first)
	recorded := verifapi.Choose(4)
	unit.UpdateBasicStatus(WorkStateRunning, "running", int64(recorded))
	// offsets 0..3, and offsets far beyond the output (a number that text formatting renders in exponent form)
	start := []int{0, 1, 2, 3, 1000000, 1048576}[verifapi.Choose(6)]
	cfo := verifNewCFO("unix")
	done := make(chan error, 1)
	go func() {
		_, cerr := wk.verifCommand(cfo, map[string]interface{}{"command": "work", "subcommand": "results", "unitid": unit.ID(), "startpos": float64(start)})
		done <- cerr
	}()
	pump := func() {
		for i := 0; i < 3; i++ {
			verifapi.Quiesce()
			verifapi.AdvanceTime(300 * time.Millisecond)
		}
		verifapi.Quiesce()
	}
	pump()
	verifAppend(out, rest)
	unit.UpdateBasicStatus(WorkStateSucceeded, "done", int64(5))
	pump()
	pump()
	var cerr error
	finished := false
	select {
	case cerr = <-done:
		finished = true
	default:
	}
	verifapi.Cover("results-command-returned")
	verifapi.Assert("results-command-ends-once-the-unit-is-finished", finished && cerr == nil)
	all := append(append([]byte{}, first...), rest...)
	var want []byte
	if start <= len(all) {
		want = all[start:]
	}
	verifapi.Assert("client-receives-exactly-the-output-from-its-offset", verifapi.SameBytes(*cfo.streamed, want))
	wk.cancel()
	verifapi.Quiesce()
}
