package workceptor

import (
	"crypto/rsa"
	"fmt"
	"os"

	"github.com/ansible/receptor/internal/verifapi"
	"github.com/ansible/receptor/pkg/certificates"
	"github.com/golang-jwt/jwt/v4"
)

// C15 - signature-protected work cannot be driven remotely without a valid token.
//
// The JWT library and key loading are replaced (engine only) by verdict models: the token parse may
// fail, or yield a token that is valid or not with an arbitrary audience list; the key file may fail
// to load. What is decided is that receptor asks the right questions and combines the answers into the
// gate correctly, for every subcommand and connection kind, and that a refusal happens before any effect.

// Verif_C15_gate: one work command (submit / cancel / release / force-release / results) over a
// connection of any kind, for a verifying or non-verifying work type, with the signature absent, empty
// or present, against every verdict of the token check.
func Verif_C15_gate() {
	dir := verifapi.TempDir()
	wk := verifWorkceptor(dir)
	verifying := verifapi.Bool()
	verifapi.Assert("register", wk.w.RegisterWorker("cmd", verifCmdCfg().NewWorker, verifying) == nil)
	hasKey := verifapi.Bool()
	if hasKey {
		wk.w.VerifyingKey = "/keys/pub.pem"
	}
	thePub := &rsa.PublicKey{E: 65537}
	keyErr := verifapi.Bool()
	verifapi.Redirect("github.com/ansible/receptor/pkg/certificates.LoadPublicKey", func(filename string, osw certificates.Oser) (*rsa.PublicKey, error) {
		verifapi.Assert("configured-key-file-is-loaded", filename == "/keys/pub.pem")
		if keyErr {
			return nil, fmt.Errorf("cannot load key")
		}
		return thePub, nil
	})
	verdict := verifapi.Choose(3) // 0 parse/validation error, 1 token reported not valid, 2 valid
	aud := [][]string{nil, {"A"}, {"B"}, {"B", "A"}, {""}, {"a"}}[verifapi.Choose(6)]
	verifapi.Redirect("github.com/golang-jwt/jwt/v4.ParseWithClaims", func(tokenString string, claims jwt.Claims, keyFunc jwt.Keyfunc, options ...jwt.ParserOption) (*jwt.Token, error) {
		verifapi.Assert("the-submitted-token-is-what-gets-parsed", tokenString == "tok")
		k, kerr := keyFunc(&jwt.Token{})
		pk, _ := k.(*rsa.PublicKey)
		verifapi.Assert("token-checked-against-the-configured-public-key", kerr == nil && pk == thePub)
		if verdict == 0 {
			return nil, fmt.Errorf("token is expired / malformed / wrongly signed")
		}
		rc, ok := claims.(*jwt.RegisteredClaims)
		verifapi.Assert("registered-claims-requested", ok)
		rc.Audience = aud
		return &jwt.Token{Valid: verdict == 2, Claims: claims}, nil
	})
	network := []string{"unix", "tcp", "", "unixgram", "netceptor-A"}[verifapi.Choose(5)]
	sub := []string{"submit", "cancel", "release", "force-release", "results"}[verifapi.Choose(5)]
	sigMode := verifapi.Choose(3) // 0 absent, 1 empty, 2 a token
	cfg := map[string]interface{}{"command": "work", "subcommand": sub}
	if sigMode == 1 {
		cfg["signature"] = ""
	} else if sigMode == 2 {
		cfg["signature"] = "tok"
	}
	// an existing unit for the commands that address one
	verifapi.FixRandom("unit0006", "unit0007")
	var target WorkUnit
	if sub == "submit" {
		cfg["node"], cfg["worktype"] = "A", "cmd"
	} else {
		var err error
		target, err = wk.w.AllocateUnit("cmd", map[string]string{})
		verifapi.Assert("target-unit-allocated", err == nil)
		verifapi.Assert("stdout-written", os.WriteFile(target.UnitDir()+"/stdout", []byte("xy"), 0o600) == nil)
		target.UpdateBasicStatus(WorkStateSucceeded, "done", 2)
		cfg["unitid"] = target.ID()
		if sub == "results" {
			cfg["startpos"] = float64(0)
		}
	}
	unitsBefore := len(wk.w.activeUnits)
	opsBefore := verifapi.FSOps()
	cfo := verifNewCFO(network)
	cfo.stdin = []byte("in")
	_, err := wk.verifCommand(cfo, cfg)
	verifapi.Quiesce()

	audOK := false
	nonEmpty := false
	for _, a := range aud {
		if a == "A" {
			audOK = true
		}
		if a != "" {
			nonEmpty = true
		}
	}
	tokenOK := sigMode == 2 && hasKey && !keyErr && verdict == 2 && audOK && nonEmpty
	var allowed bool
	if verifying {
		allowed = network == "unix" || tokenOK
	} else {
		allowed = sigMode != 2 // a token sent to a type that does not expect one is refused (an empty one counts as none)
	}
	// effects
	effect := false
	switch sub {
	case "submit":
		effect = len(wk.w.activeUnits) > unitsBefore || verifapi.FSOps() != opsBefore
	case "cancel":
		effect = target.(*commandUnit).GetContext().Err() != nil
	case "release", "force-release":
		_, still := wk.w.activeUnits[target.ID()]
		_, serr := os.Stat(target.UnitDir())
		effect = !still || serr != nil
	case "results":
		effect = len(*cfo.messages) > 0 || len(*cfo.streamed) > 0
	}
	if allowed {
		verifapi.Cover("allowed")
		verifapi.Assert("authorised-command-takes-effect", effect)
	} else {
		verifapi.Cover("refused")
		verifapi.Assert("unauthorised-command-refused-with-error", err != nil)
		verifapi.Assert("unauthorised-command-has-no-effect", !effect)
		verifapi.Assert("refused-before-touching-the-disk", verifapi.FSOps() == opsBefore)
	}
	verifapi.Assert("no-lock-left-held", verifapi.HeldLocks() == 0)
}

// Verif_C15_gate_sequence: on one work manager, a command that is allowed (local Unix socket, or a
// valid token) is followed by the same kind of command for the same unit over TCP without a valid
// token: the second one is refused and has no effect - an earlier successful verification authorises
// nothing later.
func Verif_C15_gate_sequence() {
	dir := verifapi.TempDir()
	wk := verifWorkceptor(dir)
	verifapi.Assert("register", wk.w.RegisterWorker("cmd", verifCmdCfg().NewWorker, true) == nil)
	wk.w.VerifyingKey = "/keys/pub.pem"
	thePub := &rsa.PublicKey{E: 65537}
	expired := false // the good token's lifetime runs out between the two commands
	verifapi.Redirect("github.com/ansible/receptor/pkg/certificates.LoadPublicKey", func(filename string, osw certificates.Oser) (*rsa.PublicKey, error) {
		return thePub, nil
	})
	verifapi.Redirect("github.com/golang-jwt/jwt/v4.ParseWithClaims", func(tokenString string, claims jwt.Claims, keyFunc jwt.Keyfunc, options ...jwt.ParserOption) (*jwt.Token, error) {
		if tokenString != "good" {
			return nil, fmt.Errorf("signature is invalid")
		}
		if expired {
			return nil, fmt.Errorf("token is expired")
		}
		rc := claims.(*jwt.RegisteredClaims)
		rc.Audience = []string{"A"}
		return &jwt.Token{Valid: true, Claims: claims}, nil
	})
	verifapi.FixRandom("unit0025", "unit0026", "unit0027")
	target, err := wk.w.AllocateUnit("cmd", map[string]string{})
	verifapi.Assert("target-unit-allocated", err == nil)
	verifapi.Assert("stdout-written", os.WriteFile(target.UnitDir()+"/stdout", []byte("xy"), 0o600) == nil)
	target.UpdateBasicStatus(WorkStateSucceeded, "done", 2)
	sub := []string{"results", "cancel", "submit"}[verifapi.Choose(3)]
	mk := func(sig string) map[string]interface{} {
		cfg := map[string]interface{}{"command": "work", "subcommand": sub}
		if sub == "submit" {
			cfg["node"], cfg["worktype"] = "A", "cmd"
		} else {
			cfg["unitid"] = target.ID()
			if sub == "results" {
				cfg["startpos"] = float64(0)
			}
		}
		if sig != "" {
			cfg["signature"] = sig
		}
		return cfg
	}
	// first: an authorised command (Unix socket without token, or TCP with the good token)
	var err1 error
	if verifapi.Bool() {
		_, err1 = wk.verifCommand(verifNewCFO("unix"), mk(""))
	} else {
		_, err1 = wk.verifCommand(verifNewCFO("tcp"), mk("good"))
	}
	verifapi.Quiesce()
	_ = err1
	unitsMid := len(wk.w.activeUnits)
	opsMid := verifapi.FSOps()
	// second: the same command over TCP with no token / a bad one / the token accepted before, which has expired meanwhile
	cfo := verifNewCFO("tcp")
	tok2 := []string{"", "bad", "good"}[verifapi.Choose(3)]
	expired = true
	_, err2 := wk.verifCommand(cfo, mk(tok2))
	verifapi.Quiesce()
	verifapi.Cover("second-command")
	verifapi.Assert("later-unauthorised-command-refused", err2 != nil)
	verifapi.Assert("later-unauthorised-command-has-no-effect", verifapi.All(len(wk.w.activeUnits) == unitsMid, verifapi.FSOps() == opsMid, len(*cfo.messages) == 0, len(*cfo.streamed) == 0))
}

// Verif_C15_work_type_spelling: a submit over any connection whose work type is spelled differently
// from the registered (signature-verifying or not) type "cmd" - another letter case, padding, any three
// bytes. Whatever the node makes of the name, no unit of a verifying type may come into existence
// unless the command was authorised (local Unix socket, or a valid token): the policy lookup and the
// allocation must agree on which work type the name denotes.
func Verif_C15_work_type_spelling() {
	dir := verifapi.TempDir()
	wk := verifWorkceptor(dir)
	verifying := verifapi.Bool()
	verifapi.Assert("register", wk.w.RegisterWorker("cmd", verifCmdCfg().NewWorker, verifying) == nil)
	wk.w.VerifyingKey = "/keys/pub.pem"
	thePub := &rsa.PublicKey{E: 65537}
	verifapi.Redirect("github.com/ansible/receptor/pkg/certificates.LoadPublicKey", func(filename string, osw certificates.Oser) (*rsa.PublicKey, error) {
		return thePub, nil
	})
	verifapi.Redirect("github.com/golang-jwt/jwt/v4.ParseWithClaims", func(tokenString string, claims jwt.Claims, keyFunc jwt.Keyfunc, options ...jwt.ParserOption) (*jwt.Token, error) {
		if tokenString != "good" {
			return nil, fmt.Errorf("signature is invalid")
		}
		rc := claims.(*jwt.RegisteredClaims)
		rc.Audience = []string{"A"}
		return &jwt.Token{Valid: true, Claims: claims}, nil
	})
	var name string
	switch verifapi.Choose(7) {
	case 0:
		name = "Cmd"
	case 1:
		name = "CMD"
	case 2:
		name = "cmD"
	case 3:
		name = "cmd "
	case 4:
		name = " cmd"
	case 5:
		name = ""
	case 6:
		name = verifapi.String(3)
	}
	network := []string{"unix", "tcp", "netceptor-A"}[verifapi.Choose(3)]
	sig := []string{"", "bad", "good"}[verifapi.Choose(3)]
	cfg := map[string]interface{}{"command": "work", "subcommand": "submit", "node": []string{"A", "localhost"}[verifapi.Choose(2)], "worktype": name}
	if sig != "" {
		cfg["signature"] = sig
	}
	verifapi.FixRandom("unit0031", "unit0032")
	unitsBefore := len(wk.w.activeUnits)
	cfo := verifNewCFO(network)
	cfo.stdin = []byte("in")
	_, err := wk.verifCommand(cfo, cfg)
	verifapi.Quiesce()
	created := len(wk.w.activeUnits) > unitsBefore
	if created {
		verifapi.Cover("unit-created")
		// which type did the node take the name for? (only "cmd" is registered)
		authorised := verifapi.Any(network == "unix", sig == "good")
		verifapi.Assert("unit-of-verifying-type-created-only-when-authorised", verifapi.Any(!verifying, authorised))
		verifapi.Assert("token-refused-by-type-that-expects-none", verifapi.Any(verifying, sig == ""))
	} else {
		verifapi.Cover("no-unit")
		verifapi.Assert("refusal-reported", err != nil)
	}
	verifapi.Assert("no-lock-left-held", verifapi.HeldLocks() == 0)
}

// Verif_C15_remote_signed_unit: a REMOTE unit submitted with or without work signing (its remote work
// type is not a type registered on this node - the usual controller-node situation), then a cancel,
// release, force-release or results command for it over any connection kind with the token absent,
// empty, bad or good. With signing asked for, a command that does not come over the Unix socket takes
// effect only with a valid token; without signing a token is refused. Refusal means no effect.
func Verif_C15_remote_signed_unit() {
	dir := verifapi.TempDir()
	wk := verifWorkceptor(dir)
	wk.w.VerifyingKey = "/keys/pub.pem"
	thePub := &rsa.PublicKey{E: 65537}
	verifapi.Redirect("github.com/ansible/receptor/pkg/certificates.LoadPublicKey", func(filename string, osw certificates.Oser) (*rsa.PublicKey, error) {
		return thePub, nil
	})
	verifapi.Redirect("github.com/golang-jwt/jwt/v4.ParseWithClaims", func(tokenString string, claims jwt.Claims, keyFunc jwt.Keyfunc, options ...jwt.ParserOption) (*jwt.Token, error) {
		if tokenString != "good" {
			return nil, fmt.Errorf("signature is invalid")
		}
		rc := claims.(*jwt.RegisteredClaims)
		rc.Audience = []string{"A"}
		return &jwt.Token{Valid: true, Claims: claims}, nil
	})
	signWork := verifapi.Bool()
	verifapi.FixRandom("unit0071")
	unit, err := wk.w.AllocateRemoteUnit("R", "echo", "tls", "", signWork, map[string]string{})
	verifapi.Assert("allocated", err == nil)
	verifapi.Assert("stdout-written", os.WriteFile(unit.UnitDir()+"/stdout", []byte("xy"), 0o600) == nil)
	unit.UpdateBasicStatus(WorkStateSucceeded, "done", 2)
	verifapi.Quiesce()
	network := []string{"unix", "tcp", "netceptor-A"}[verifapi.Choose(3)]
	sub := []string{"cancel", "release", "force-release", "results"}[verifapi.Choose(4)]
	sigMode := verifapi.Choose(4) // absent, empty, bad, good
	cfg := map[string]interface{}{"command": "work", "subcommand": sub, "unitid": unit.ID()}
	switch sigMode {
	case 1:
		cfg["signature"] = ""
	case 2:
		cfg["signature"] = "bad"
	case 3:
		cfg["signature"] = "good"
	}
	if sub == "results" {
		cfg["startpos"] = float64(0)
	}
	opsBefore := verifapi.FSOps()
	cfo := verifNewCFO(network)
	_, cerr := wk.verifCommand(cfo, cfg)
	verifapi.Quiesce()
	var allowed bool
	if signWork {
		allowed = verifapi.Any(network == "unix", sigMode == 3)
	} else {
		allowed = sigMode <= 1
	}
	if !allowed {
		verifapi.Cover("refused")
		verifapi.Assert("unauthorised-command-on-a-remote-unit-refused", cerr != nil)
		_, still := wk.w.activeUnits[unit.ID()]
		verifapi.Assert("unauthorised-command-on-a-remote-unit-has-no-effect", verifapi.All(still, verifapi.FSOps() == opsBefore,
			len(*cfo.messages) == 0, len(*cfo.streamed) == 0))
	} else {
		verifapi.Cover("allowed")
		if sub == "results" {
			verifapi.Assert("authorised-results-delivered", verifapi.Any(len(*cfo.messages) > 0, len(*cfo.streamed) > 0))
		}
	}
	wk.cancel()
	verifapi.Quiesce()
}
