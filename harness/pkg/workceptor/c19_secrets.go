package workceptor

import (
	"github.com/ansible/receptor/pkg/netceptor"
	"crypto/tls"
	"context"
	"os"

	"github.com/ansible/receptor/internal/verifapi"
)

// C19 - secret work parameters are never disclosed by the API nor sent without TLS.

// verifIsSecret is the specification predicate, written independently of the implementation: the
// first seven bytes are "secret_" in any ASCII letter case.
func verifIsSecret(k string) bool {
	if len(k) < 7 {
		return false
	}
	want := "secret_"
	ok := true
	for i := 0; i < 7; i++ {
		c := k[i]
		lc := verifapi.Ite(verifapi.All(c >= 'A', c <= 'Z'), int(c)+32, int(c))
		ok = verifapi.All(ok, lc == int(want[i]))
	}
	return ok
}

func verifASCIIString(n int) string {
	s := verifapi.String(n)
	for i := 0; i < len(s); i++ {
		verifapi.Assume(verifapi.All(s[i] < 0x80, s[i] >= 0x20))
	}
	return s
}

// Verif_C19_redaction: a remote submission with an arbitrary parameter map (keys of 8, 7 and 3 ASCII
// bytes - long enough for "secret_x" and "secret_" in every letter case - arbitrary values), with or
// without a TLS client profile. Without TLS a map containing a secret key is refused before anything
// is stored; otherwise status and list responses (also after a restart) never contain a secret key and
// contain every other parameter unchanged, while the copy kept for sending still has everything.
func Verif_C19_redaction() {
	dir := verifapi.TempDir()
	wk := verifWorkceptor(dir)
	keys := []string{verifASCIIString(8), verifASCIIString(7), verifASCIIString(3)}
	vals := []string{verifASCIIString(1), verifASCIIString(1), verifASCIIString(1)}
	n := 1 + verifapi.Choose(3)
	submit := map[string]interface{}{"command": "work", "subcommand": "submit", "node": "R", "worktype": "echo"}
	anySecret := false
	for i := 0; i < n; i++ {
		// a parameter name must not collide with the fixed fields of the submit command
		for _, fixed := range []string{"command", "node", "ttl", "worktype", "signwork"} {
			verifapi.Assume(keys[i] != fixed)
		}
		submit[keys[i]] = vals[i]
		anySecret = verifapi.Any(anySecret, verifIsSecret(keys[i]))
	}
	useTLS := verifapi.Bool()
	if useTLS {
		submit["tlsclient"] = "tls"
	}
	verifapi.FixRandom("unit0005")
	opsBefore := verifapi.FSOps()
	cfo := verifNewCFO("unix")
	resp, err := wk.verifCommand(cfo, submit)
	verifapi.Quiesce()
	if anySecret && !useTLS {
		verifapi.Cover("refused")
		verifapi.Assert("secret-without-tls-refused", err != nil)
		verifapi.Assert("refused-before-anything-is-stored", verifapi.All(len(wk.w.activeUnits) == 0, verifapi.FSOps() == opsBefore))
		_, serr := os.Stat(dir + "/A/unit0005")
		verifapi.Assert("refused-leaves-no-unit-directory", serr != nil)
		verifapi.Assert("refused-before-anything-is-sent", *wk.nc.dials == 0)
		return
	}
	verifapi.Cover("accepted")
	verifapi.Assert("submission-accepted", err == nil && resp != nil)
	id, _ := resp["unitid"].(string)
	check := func(which string, m map[string]interface{}) {
		ed, ok := m["ExtraData"].(*RemoteExtraData)
		verifapi.Assert("response-has-remote-data", verifapi.All(ok, ed != nil))
		for i := 0; i < n; i++ {
			v, present := ed.RemoteParams[keys[i]]
			if verifIsSecret(keys[i]) {
				verifapi.Cover("secret-parameter")
				verifapi.Assert("secret-parameter-not-disclosed", !present)
			} else {
				verifapi.Cover("ordinary-parameter")
				verifapi.Assert("ordinary-parameter-reported-unchanged", verifapi.All(present, v == vals[i]))
			}
		}
		verifapi.Assert("nothing-else-reported", len(ed.RemoteParams) <= n)
	}
	st, err := wk.verifCommand(verifNewCFO("tcp"), map[string]interface{}{"command": "work", "subcommand": "status", "unitid": id})
	verifapi.Assert("status-ok", err == nil)
	check("status", st)
	lst, err := wk.verifCommand(verifNewCFO("tcp"), map[string]interface{}{"command": "work", "subcommand": "list"})
	verifapi.Assert("list-ok", err == nil)
	entry, ok := lst[id].(map[string]interface{})
	verifapi.Assert("list-has-unit", ok)
	check("list", entry)
	// the copy used for sending still has every parameter
	unit := wk.w.activeUnits[id]
	full := unit.UnredactedStatus().ExtraData.(*RemoteExtraData)
	for i := 0; i < n; i++ {
		v, present := full.RemoteParams[keys[i]]
		verifapi.Assert("sending-copy-keeps-all-parameters", verifapi.All(present, v == vals[i]))
	}
	// after a restart the record is read back from disk: still redacted in responses
	wk.cancel()
	verifapi.Quiesce()
	wk2 := verifWorkceptor(dir)
	wk2.w.scanForUnits()
	verifapi.Quiesce()
	st2, err := wk2.verifCommand(verifNewCFO("tcp"), map[string]interface{}{"command": "work", "subcommand": "status", "unitid": id})
	verifapi.Assert("status-after-restart-ok", err == nil)
	check("status-after-restart", st2)
	verifapi.Assert("no-lock-left-held", verifapi.HeldLocks() == 0)
}

// Verif_C19_two_units: two remote units with different parameter sets live side by side; a third is
// submitted afterwards. Every status/list answer redacts each unit by ITS OWN parameter names: what is
// known about one unit's secret names never decides what is shown for another.
func Verif_C19_two_units() {
	dir := verifapi.TempDir()
	wk := verifWorkceptor(dir)
	verifapi.FixRandom("unit0030", "unit0031", "unit0032")
	k1 := verifASCIIString(8)
	verifapi.Assume(verifapi.All(k1 != "worktype", k1 != "signwork"))
	submit := func(params map[string]string) string {
		cfg := map[string]interface{}{"command": "work", "subcommand": "submit", "node": "R", "worktype": "echo", "tlsclient": "tls"}
		for k, v := range params {
			cfg[k] = v
		}
		resp, err := wk.verifCommand(verifNewCFO("unix"), cfg)
		verifapi.Assert("submitted", err == nil && resp != nil)
		id, _ := resp["unitid"].(string)
		return id
	}
	// unit 1: one arbitrary 8-byte name; unit 2: the SAME name (so it is secret in both or in neither) plus a plain one;
	// unit 3: only plain names that unit 1 does not have
	id1 := submit(map[string]string{k1: "v1"})
	id2 := submit(map[string]string{k1: "v2", "plain": "p2"})
	id3 := submit(map[string]string{"Secret_z": "v3", "other": "p3"})
	verifapi.Quiesce()
	lst, err := wk.verifCommand(verifNewCFO("tcp"), map[string]interface{}{"command": "work", "subcommand": "list"})
	verifapi.Assert("list-ok", err == nil)
	params := func(id string) map[string]string {
		entry, ok := lst[id].(map[string]interface{})
		verifapi.Assert("list-has-unit", ok)
		ed, ok := entry["ExtraData"].(*RemoteExtraData)
		verifapi.Assert("entry-has-remote-data", verifapi.All(ok, ed != nil))
		return ed.RemoteParams
	}
	p1, p2, p3 := params(id1), params(id2), params(id3)
	verifapi.Cover("three-units-listed")
	_, has1 := p1[k1]
	_, has2 := p2[k1]
	if verifIsSecret(k1) {
		verifapi.Cover("shared-name-is-secret")
		verifapi.Assert("secret-hidden-in-every-unit", verifapi.All(!has1, !has2))
	} else {
		verifapi.Assert("plain-name-shown-in-every-unit", verifapi.All(has1, has2, p1[k1] == "v1", p2[k1] == "v2"))
	}
	_, z := p3["Secret_z"]
	verifapi.Assert("each-unit-redacted-by-its-own-names", verifapi.All(!z, p3["other"] == "p3", p2["plain"] == "p2"))
}

// Verif_C19_only_a_real_profile_counts_as_tls: the TLS profile table is the real node's (netceptor's
// SetClientTLSConfig / GetClientTLSConfig), not a stand-in. A remote submission with a secret parameter
// names as its TLS client profile: the stored profile, nothing, an unknown name, or a name that is only
// white space. It is accepted only if what it names IS a
// stored profile, exactly; otherwise it is refused before anything is stored or sent.
func Verif_C19_only_a_real_profile_counts_as_tls() {
	dir := verifapi.TempDir()
	wk := verifWorkceptor(dir)
	verifapi.Redirect("(*crypto/tls.Config).Clone", func(c *tls.Config) *tls.Config {
		if c == nil {
			return nil
		}
		return &tls.Config{RootCAs: c.RootCAs, InsecureSkipVerify: c.InsecureSkipVerify, ServerName: c.ServerName, VerifyPeerCertificate: c.VerifyPeerCertificate}
	})
	real := netceptor.New(context.Background(), "A")
	verifapi.Assert("profile-stored", real.SetClientTLSConfig("tls", &tls.Config{}, nil) == nil)
	wk.nc.real = real
	name := []string{"tls", "", " ", "\t", "nosuch"}[verifapi.Choose(5)]
	submit := map[string]interface{}{"command": "work", "subcommand": "submit", "node": "R", "worktype": "echo", "secret_x": "v"}
	if name != "" || verifapi.Bool() {
		submit["tlsclient"] = name
	}
	verifapi.FixRandom("unit0091")
	opsBefore := verifapi.FSOps()
	_, err := wk.verifCommand(verifNewCFO("unix"), submit)
	verifapi.Quiesce()
	verifapi.Cover("submission-answered")
	if name == "tls" {
		verifapi.Assert("stored-profile-accepted", err == nil)
	} else {
		verifapi.Assert("secret-without-a-stored-tls-profile-refused", err != nil)
		verifapi.Assert("refused-before-anything-is-stored-or-sent", verifapi.All(len(wk.w.activeUnits) == 0, verifapi.FSOps() == opsBefore, *wk.nc.dials == 0))
	}
	real.Shutdown()
	wk.cancel()
	verifapi.Quiesce()
}
