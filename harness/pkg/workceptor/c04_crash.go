package workceptor

import (
	"os"
	"time"

	"github.com/ansible/receptor/internal/verifapi"
)

// C04 - acknowledged work units survive crash/restart with identity and outcome.
// The crash is injected by the file-system model before the k-th state-changing operation (k is
// chosen by the engine over every operation the path performs); recovery is the real start-up scan of
// a second Workceptor on what is left on "disk".

func verifCmdCfg() CommandWorkerCfg { return CommandWorkerCfg{WorkType: "cmd", Command: "c"} }

// verifRestart is the daemon starting again on the same data directory.
func verifRestart(dir string) *verifWork {
	verifapi.Reboot()
	wk := verifWorkceptor(dir)
	verifapi.Assert("worker-type-registered-again", wk.w.RegisterWorker("cmd", verifCmdCfg().NewWorker, false) == nil)
	verifapi.Quiesce()
	return wk
}

// Verif_C04_rewrite_crash_index: the status record of a unit (arbitrary old content) is rewritten by
// the real UpdateBasicStatus and the process dies before any one of its file-system operations.
// Whatever the crash point, the file still parses afterwards and holds either the old or the new record.
func Verif_C04_rewrite_crash_index() {
	dir := verifapi.TempDir()
	file := dir + "/status"
	old := &StatusFileData{State: verifapi.Choose(5), Detail: "o", StdoutSize: verifapi.Int64(), WorkType: "cmd"}
	verifapi.Assume(old.StdoutSize >= 0)
	verifapi.Assert("initial-save", old.Save(file) == nil)
	newState, newSize := verifapi.Choose(5), verifapi.Int64()
	verifapi.Assume(newSize >= 0)
	k := 1 + verifapi.Choose(6)
	verifapi.CrashAt(k)
	crashed := verifapi.RunUntilCrash(func() {
		sfd := &StatusFileData{}
		_ = sfd.UpdateBasicStatus(file, newState, "n", newSize)
	})
	verifapi.Reboot()
	left, _ := os.ReadFile(file)
	after := &StatusFileData{}
	err := after.Load(file)
	isOld := verifapi.All(after.State == old.State, after.Detail == "o", after.StdoutSize == old.StdoutSize, after.WorkType == "cmd")
	isNew := verifapi.All(after.State == newState, after.Detail == "n", after.StdoutSize == newSize, after.WorkType == "cmd")
	if crashed {
		verifapi.Cover("crashed")
		verifapi.Known("status-file-left-empty-by-crash-after-truncate", len(left) == 0)
		verifapi.Assert("record-readable-after-crash", err == nil)
		verifapi.Assert("record-is-old-or-new-after-crash", verifapi.Any(isOld, isNew))
	} else {
		verifapi.Cover("completed")
		verifapi.Assert("record-is-new-after-completion", err == nil && isNew)
	}
}

// Verif_C04_acked_unit_survives: a command unit is allocated (its ID is what the submitter gets),
// then the daemon performs the next status updates of the submit sequence and dies at an arbitrary
// file-system operation; after the restart the unit is still listed with its work type, a status query
// does not block, and a unit that never started is reported failed rather than pending.
func Verif_C04_acked_unit_survives() {
	dir := verifapi.TempDir()
	wk := verifWorkceptor(dir)
	verifapi.Assert("register", wk.w.RegisterWorker("cmd", verifCmdCfg().NewWorker, false) == nil)
	verifapi.FixRandom("unit0001")
	unit, err := wk.w.AllocateUnit("cmd", map[string]string{})
	verifapi.Assert("allocated", err == nil && unit != nil)
	id := unit.ID()
	unit.UpdateBasicStatus(WorkStatePending, "Waiting for Input Data", 0)
	// ---- the ID has been handed to the submitter here ----
	k := 1 + verifapi.Choose(8)
	verifapi.CrashAt(k)
	crashed := verifapi.RunUntilCrash(func() {
		unit.UpdateBasicStatus(WorkStatePending, "Starting Worker", 0)
		unit.UpdateBasicStatus(WorkStateRunning, "Running: PID 7", 3)
	})
	wk.cancel()
	left, _ := os.ReadFile(unit.StatusFileName())
	wk2 := verifRestart(dir)
	st, serr := wk2.w.UnitStatus(id)
	if crashed {
		verifapi.Cover("crashed")
	} else {
		verifapi.Cover("completed")
	}
	verifapi.Known("status-file-left-empty-by-crash-after-truncate", crashed && len(left) == 0)
	verifapi.Assert("acknowledged-unit-still-listed", serr == nil && st != nil)
	verifapi.Assert("acknowledged-unit-keeps-its-work-type", st.WorkType == "cmd")
	verifapi.Assert("never-started-unit-not-left-pending", st.State != WorkStatePending)
	verifapi.Assert("no-lock-left-held", verifapi.HeldLocks() == 0)
}

// Verif_C04_remote_binding_survives: the same for a remote unit: the remote node, remote work type and
// (once known) remote unit ID survive a crash at any file-system operation of the following update.
func Verif_C04_remote_binding_survives() {
	dir := verifapi.TempDir()
	wk := verifWorkceptor(dir)
	verifapi.FixRandom("unit0002")
	unit, err := wk.w.AllocateRemoteUnit("R", "echo", "", "", false, map[string]string{"p": "v"})
	verifapi.Assert("allocated", err == nil && unit != nil)
	id := unit.ID()
	k := 1 + verifapi.Choose(6)
	verifapi.CrashAt(k)
	crashed := verifapi.RunUntilCrash(func() {
		unit.UpdateFullStatus(func(status *StatusFileData) {
			ed := status.ExtraData.(*RemoteExtraData)
			ed.RemoteUnitID = "rem1"
			ed.RemoteStarted = true
		})
	})
	wk.cancel()
	left, _ := os.ReadFile(unit.StatusFileName())
	wk2 := verifRestart(dir)
	st, serr := wk2.w.UnitStatus(id)
	verifapi.Known("status-file-left-empty-by-crash-after-truncate", crashed && len(left) == 0)
	if crashed {
		verifapi.Cover("crashed")
	} else {
		verifapi.Cover("completed")
	}
	verifapi.Assert("acknowledged-remote-unit-still-listed", serr == nil && st != nil)
	verifapi.Assert("remote-unit-keeps-its-work-type", st.WorkType == "remote")
	red, ok := st.ExtraData.(*RemoteExtraData)
	verifapi.Assert("remote-unit-keeps-its-binding", verifapi.All(ok, red != nil))
	verifapi.Assert("remote-node-and-type-survive", verifapi.All(red.RemoteNode == "R", red.RemoteWorkType == "echo", red.RemoteParams["p"] == "v"))
	if !crashed {
		verifapi.Assert("remote-unit-id-survives", verifapi.All(red.RemoteUnitID == "rem1", red.RemoteStarted))
	}
}

// Verif_C04_recovery_decisions: restart on a unit directory whose record is in any state: a finished
// unit keeps its final state and output size, a unit that never started is reported failed, a running
// one stays running (its monitor is started); the scan itself never panics or keeps a lock.
func Verif_C04_recovery_decisions() {
	dir := verifapi.TempDir()
	udir := dir + "/A/unit0003"
	verifapi.Assert("mkdir", osMkdirAll(udir) == nil)
	state := verifapi.Choose(5)
	size := verifapi.Int64()
	verifapi.Assume(verifapi.All(size >= 0, size < 1000))
	rec := &StatusFileData{State: state, Detail: "d", StdoutSize: size, WorkType: "cmd", ExtraData: &CommandExtraData{Pid: 7, Params: "p"}}
	verifapi.Assert("record-saved", rec.Save(udir+"/status") == nil)
	wk := verifRestart(dir)
	st, err := wk.w.UnitStatus("unit0003")
	verifapi.Cover("recovered")
	verifapi.Assert("unit-listed-after-restart", err == nil && st != nil)
	verifapi.Assert("work-type-kept", st.WorkType == "cmd")
	switch state {
	case WorkStateSucceeded, WorkStateFailed:
		verifapi.Assert("finished-unit-keeps-state-and-size", verifapi.All(st.State == state, st.StdoutSize == size, st.Detail == "d"))
	case WorkStatePending:
		verifapi.Assert("never-started-unit-reported-failed", st.State == WorkStateFailed)
	case WorkStateRunning:
		verifapi.Assert("running-unit-still-running", verifapi.All(st.State == WorkStateRunning, st.StdoutSize == size))
	}
	disk := &StatusFileData{}
	verifapi.Assert("record-on-disk-readable", disk.Load(udir+"/status") == nil)
	verifapi.Assert("record-on-disk-matches-report", verifapi.All(disk.State == st.State, disk.WorkType == "cmd"))
	wk.cancel()
	verifapi.Quiesce()
	verifapi.Assert("no-lock-left-held", verifapi.HeldLocks() == 0)
}

// Verif_C04_status_query_does_not_block: a status query for a unit that exists only on disk (not yet
// in the in-memory index) - or nowhere - returns; it never deadlocks on the index lock.
func Verif_C04_status_query_does_not_block() {
	dir := verifapi.TempDir()
	wk := verifWorkceptor(dir)
	verifapi.Assert("register", wk.w.RegisterWorker("cmd", verifCmdCfg().NewWorker, false) == nil)
	onDisk := verifapi.Bool()
	if onDisk {
		udir := dir + "/A/unit0004"
		verifapi.Assert("mkdir", osMkdirAll(udir) == nil)
		rec := &StatusFileData{State: WorkStateSucceeded, Detail: "d", StdoutSize: 5, WorkType: "cmd"}
		verifapi.Assert("record-saved", rec.Save(udir+"/status") == nil)
	}
	verifapi.Known("unit-only-on-disk", onDisk)
	st, err := wk.w.UnitStatus("unit0004")
	verifapi.Cover("query-returned")
	if onDisk {
		verifapi.Assert("disk-only-unit-found", verifapi.All(err == nil, st != nil, st.State == WorkStateSucceeded, st.StdoutSize == 5))
	} else {
		verifapi.Assert("unknown-unit-reported", err != nil)
	}
	verifapi.Assert("no-lock-left-held", verifapi.HeldLocks() == 0)
}

// Verif_C04_remote_unit_followed_after_restart: a remote unit that had been started on the remote node
// is found at restart in any state, with its output completely or only partly copied: unless it is
// finished AND all recorded output is stored locally, the daemon goes back to the remote node (it
// dials it) to follow the unit to completion / fetch the rest of the output.
func Verif_C04_remote_unit_followed_after_restart() {
	dir := verifapi.TempDir()
	udir := dir + "/A/unit0024"
	verifapi.Assert("mkdir", osMkdirAll(udir) == nil)
	state := []int{WorkStateRunning, WorkStateSucceeded, WorkStateFailed}[verifapi.Choose(3)]
	recorded := int64(6)
	stored := []int{0, 3, 6}[verifapi.Choose(3)]
	rec := &StatusFileData{State: state, Detail: "d", StdoutSize: recorded, WorkType: "remote",
		ExtraData: &RemoteExtraData{RemoteNode: "R", RemoteWorkType: "echo", RemoteUnitID: "rem1", RemoteStarted: true, RemoteParams: map[string]string{},
			SignWork: verifapi.Bool()}} // a signed unit too: at restart the signing key is configured only AFTER the units were rescanned
	verifapi.Assert("record-saved", rec.Save(udir+"/status") == nil)
	verifapi.Assert("stdout-stored", os.WriteFile(udir+"/stdout", make([]byte, stored), 0o600) == nil)
	verifapi.Reboot()
	wk := verifWorkceptor(dir)
	wk.w.scanForUnits()
	for i := 0; i < 3; i++ {
		verifapi.Quiesce()
		verifapi.AdvanceTime(time.Second)
	}
	verifapi.Quiesce()
	st, err := wk.w.UnitStatus("unit0024")
	verifapi.Cover("restarted")
	verifapi.Assert("remote-unit-listed-with-binding", verifapi.All(err == nil, st != nil, st.WorkType == "remote"))
	red, _ := st.ExtraData.(*RemoteExtraData)
	verifapi.Assert("remote-binding-kept", verifapi.All(red != nil, red.RemoteNode == "R", red.RemoteUnitID == "rem1"))
	complete := IsComplete(state) && int64(stored) >= recorded
	if !complete {
		verifapi.Cover("must-be-followed")
		verifapi.Assert("unfinished-remote-unit-is-followed-after-restart", *wk.nc.dials >= 1)
		// ... and it KEEPS being followed: the remote node is unreachable for now, the monitor goes on trying
		d1 := *wk.nc.dials
		for i := 0; i < 4; i++ {
			verifapi.AdvanceTime(time.Second)
			verifapi.Quiesce()
		}
		verifapi.Assert("the-monitor-keeps-trying-while-the-unit-is-unfinished", *wk.nc.dials > d1)
	}
	wk.cancel()
	verifapi.Quiesce()
}

// Verif_C04_rescan_while_runner_writes: the daemon was killed, the detached runner lives on and keeps
// rewriting the status record while the restarted daemon scans the unit: the unit is picked up as its
// registered type (and so followed to completion) under every schedule - see verifRescanWhileRunnerWrites.
func Verif_C04_rescan_while_runner_writes() { verifRescanWhileRunnerWrites() }
