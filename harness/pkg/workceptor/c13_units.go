package workceptor

import (
	"github.com/ansible/receptor/pkg/utils"
	"context"
	"time"
	"os/exec"
	"fmt"
	"os"

	"github.com/ansible/receptor/internal/verifapi"
)

// C13 - work units only move forward; release removes them; unit IDs are unique.

func verifStage(state int) int {
	switch state {
	case WorkStatePending:
		return 0
	case WorkStateRunning:
		return 1
	}
	return 2
}

// Verif_C13_unique_id: the random identifier stream is ARBITRARY (the engine may make it collide with
// anything); whatever it yields, a newly allocated unit never gets an ID that is in the index or that
// has a directory, two allocations never share an ID or a directory, and the new unit is recorded in
// the index and on disk.
func Verif_C13_unique_id() {
	dir := verifapi.TempDir()
	wk := verifWorkceptor(dir)
	verifapi.Assert("register", wk.w.RegisterWorker("cmd", verifCmdCfg().NewWorker, false) == nil)
	// one unit known to the index and on disk, one directory that is only on disk
	verifapi.FixRandom("aaaaaaaa")
	u0, err := wk.w.AllocateUnit("cmd", map[string]string{})
	verifapi.Assert("first-allocation", err == nil && u0.ID() == "aaaaaaaa")
	verifapi.Assert("mkdir", osMkdirAll(dir+"/A/bbbbbbbb") == nil)
	// from here on the identifier stream is arbitrary; runs of more than 3 collisions in a row are cut
	verifapi.SetUnwind(3, "#cut@generateUnitID")
	u1, err1 := wk.w.AllocateUnit("cmd", map[string]string{})
	u2, err2 := wk.w.AllocateUnit("cmd", map[string]string{})
	verifapi.SetUnwind(100000, "")
	verifapi.Cover("allocated")
	verifapi.Assert("allocations-succeed", verifapi.All(err1 == nil, err2 == nil))
	id1, id2 := u1.ID(), u2.ID()
	verifapi.Assert("new-id-not-an-indexed-unit", verifapi.All(id1 != "aaaaaaaa", id2 != "aaaaaaaa"))
	verifapi.Assert("new-id-not-an-existing-directory", verifapi.All(id1 != "bbbbbbbb", id2 != "bbbbbbbb"))
	verifapi.Assert("two-allocations-never-share-an-id", id1 != id2)
	verifapi.Assert("directories-distinct", u1.UnitDir() != u2.UnitDir())
	verifapi.Assert("index-holds-all-three", len(wk.w.activeUnits) == 3)
	_, e1 := os.Stat(u1.StatusFileName())
	_, e2 := os.Stat(u2.StatusFileName())
	verifapi.Assert("each-unit-has-its-own-record", verifapi.All(e1 == nil, e2 == nil))
	verifapi.Assert("older-unit-untouched", u0.Status().State == WorkStatePending)
	verifapi.Assert("no-lock-left-held", verifapi.HeldLocks() == 0)
}

// Verif_C13_concurrent_allocation: two clients submit at the same time and the random generator hands
// both the same identifier first: under every schedule (2 pre-emptions) the two units still differ.
func Verif_C13_concurrent_allocation() {
	dir := verifapi.TempDir()
	wk := verifWorkceptor(dir)
	verifapi.Assert("register", wk.w.RegisterWorker("cmd", verifCmdCfg().NewWorker, false) == nil)
	verifapi.FixRandom("cccccccc", "cccccccc", "dddddddd", "eeeeeeee")
	verifapi.ExploreSchedules(2 + verifapi.Tier())
	res := make(chan WorkUnit, 2)
	for i := 0; i < 2; i++ {
		go func() {
			u, err := wk.w.AllocateUnit("cmd", map[string]string{})
			if err != nil {
				u = nil
			}
			res <- u
		}()
	}
	a, b := <-res, <-res
	verifapi.ExploreSchedules(0)
	verifapi.Cover("both-allocated")
	verifapi.Assert("both-allocations-succeed", verifapi.All(a != nil, b != nil))
	verifapi.Assert("concurrent-allocations-never-share-an-id", a.ID() != b.ID())
	verifapi.Assert("index-holds-both", len(wk.w.activeUnits) == 2)
}

// verifFailFS is a FileSystemer whose RemoveAll fails when told to.
type verifFailFS struct {
	FileSystem
	fail *bool
}

func (f verifFailFS) RemoveAll(p string) error {
	if *f.fail {
		return fmt.Errorf("device busy")
	}
	return os.RemoveAll(p)
}

// Verif_C13_release: releasing a unit (forced or not, with the directory removal failing or not): a
// release that reports success has removed the directory and the unit is no longer known; a
// non-forced release whose removal fails reports the error and keeps the unit known.
func Verif_C13_release() {
	dir := verifapi.TempDir()
	wk := verifWorkceptor(dir)
	fail := verifapi.Bool()
	force := verifapi.Bool()
	verifapi.Assert("mkdir", osMkdirAll(dir+"/A/unit0008") == nil)
	bwu := &BaseWorkUnit{}
	bwu.Init(wk.w, "unit0008", "cmd", verifFailFS{fail: &fail}, nil)
	verifapi.Assert("saved", bwu.Save() == nil)
	other := &BaseWorkUnit{}
	verifapi.Assert("mkdir", osMkdirAll(dir+"/A/unit0009") == nil)
	other.Init(wk.w, "unit0009", "cmd", FileSystem{}, nil)
	verifapi.Assert("saved", other.Save() == nil)
	wk.w.activeUnits["unit0008"] = &unknownUnit{BaseWorkUnit: *bwu}
	wk.w.activeUnits["unit0009"] = &unknownUnit{BaseWorkUnit: *other}
	err := bwu.Release(force)
	_, known := wk.w.activeUnits["unit0008"]
	_, statErr := os.Stat(dir + "/A/unit0008")
	verifapi.Cover("released")
	if err == nil && !force {
		verifapi.Assert("successful-release-removes-files", statErr != nil)
		verifapi.Assert("successful-release-forgets-unit", !known)
		verifapi.Assert("release-reports-removal-failure", !fail)
	}
	if force {
		verifapi.Assert("forced-release-always-forgets-unit", err == nil && !known)
	}
	if fail && !force {
		verifapi.Assert("failed-release-reports-error", err != nil)
		verifapi.Assert("failed-release-keeps-unit-known", known)
	}
	_, otherKnown := wk.w.activeUnits["unit0009"]
	_, otherStat := os.Stat(dir + "/A/unit0009/status")
	verifapi.Assert("other-units-untouched", verifapi.All(otherKnown, otherStat == nil))
	verifapi.Assert("no-lock-left-held", verifapi.HeldLocks() == 0)
}

// Verif_C13_restart_only_forward: whatever state a command unit's record is in (with any recorded
// output size), restarting the daemon never moves it to an earlier stage, never changes a finished
// unit, and never shrinks the recorded output size of a unit that keeps running.
func Verif_C13_restart_only_forward() {
	dir := verifapi.TempDir()
	udir := dir + "/A/unit0010"
	verifapi.Assert("mkdir", osMkdirAll(udir) == nil)
	state := verifapi.Choose(5)
	size := verifapi.Int64()
	verifapi.Assume(verifapi.All(size >= 0, size < 100))
	rec := &StatusFileData{State: state, Detail: "d", StdoutSize: size, WorkType: "cmd", ExtraData: &CommandExtraData{Pid: 0, Params: ""}}
	verifapi.Assert("record-saved", rec.Save(udir+"/status") == nil)
	hasOut := verifapi.Bool()
	if hasOut {
		verifapi.Assert("stdout", os.WriteFile(udir+"/stdout", []byte("abc"), 0o600) == nil)
	}
	wk := verifRestart(dir)
	disk := &StatusFileData{}
	verifapi.Assert("record-readable", disk.Load(udir+"/status") == nil)
	verifapi.Cover("restarted")
	verifapi.Assert("stage-never-goes-back", verifStage(disk.State) >= verifStage(state))
	if verifStage(state) == 2 {
		verifapi.Assert("finished-unit-unchanged", verifapi.All(disk.State == state, disk.StdoutSize == size))
	}
	if state == WorkStateRunning {
		verifapi.Assert("running-unit-size-not-shrunk", disk.StdoutSize >= size)
	}
	// cancelling and releasing afterwards: the unit ends up unknown and its files are gone
	err := wk.w.ReleaseUnit("unit0010", false)
	verifapi.Quiesce()
	_, known := wk.w.activeUnits["unit0010"]
	_, statErr := os.Stat(udir)
	verifapi.Assert("release-of-restored-unit", verifapi.All(err == nil, !known, statErr != nil))
	_, err = wk.w.UnitStatus("unit0010")
	verifapi.Assert("released-unit-no-longer-known", err != nil)
	wk.cancel()
	verifapi.Quiesce()
	verifapi.Assert("no-lock-left-held", verifapi.HeldLocks() == 0)
}

// Verif_C13_unit_id_spellings: a finished unit is addressed through unusual spellings of its ID
// (trailing slash, ./id, id/., ../node/id, id//): each command either fails as "unknown unit" or acts
// on the one real unit; no second unit object appears for the same directory, and after a release that
// reports success the unit is not known under ANY name and its directory is gone.
func Verif_C13_unit_id_spellings() {
	dir := verifapi.TempDir()
	wk := verifWorkceptor(dir)
	verifapi.Assert("register", wk.w.RegisterWorker("cmd", verifCmdCfg().NewWorker, false) == nil)
	verifapi.FixRandom("unit0023")
	u, err := wk.w.AllocateUnit("cmd", map[string]string{})
	verifapi.Assert("allocated", err == nil)
	u.UpdateBasicStatus(WorkStateSucceeded, "done", 0)
	id := u.ID()
	alias := []string{id + "/", "./" + id, id + "/.", "../A/" + id, id + "//", id}[verifapi.Choose(6)]
	_, serr := wk.w.UnitStatus(alias)
	verifapi.Assert("one-unit-object-per-directory", len(wk.w.activeUnits) == 1)
	if alias != id {
		verifapi.Assert("unusual-spelling-is-not-a-second-unit", serr != nil)
	}
	rerr := wk.w.ReleaseUnit(alias, false)
	verifapi.Quiesce()
	verifapi.Cover("release-attempted")
	_, statErr := os.Stat(dir + "/A/" + id)
	if rerr == nil {
		verifapi.Assert("successful-release-removes-files", statErr != nil)
		verifapi.Assert("successful-release-leaves-no-known-unit", len(wk.w.activeUnits) == 0)
		_, again := wk.w.UnitStatus(id)
		verifapi.Assert("released-unit-no-longer-known", again != nil)
	} else {
		verifapi.Assert("refused-release-leaves-unit-intact", verifapi.All(statErr == nil, len(wk.w.activeUnits) == 1))
	}
	verifapi.Assert("no-lock-left-held", verifapi.HeldLocks() == 0)
}

// Verif_C13_cancel_stops_the_process: the runner's cancel handler (termThenKill) against a payload that
// either exits on the interrupt or ignores it (process signalling replaced by a recording model): the
// interrupt is sent first, and a payload that is still there after the grace period is killed - a
// cancelled unit's process does not survive the cancellation.
func Verif_C13_cancel_stops_the_process() {
	dir := verifapi.TempDir()
	_ = verifWorkceptor(dir)
	var calls []string
	verifapi.Redirect("(*os.Process).Signal", func(p *os.Process, sig os.Signal) error {
		calls = append(calls, "signal")
		return nil
	})
	verifapi.Redirect("(*os.Process).Kill", func(p *os.Process) error {
		calls = append(calls, "kill")
		return nil
	})
	cmd := &exec.Cmd{Process: &os.Process{Pid: 77}} // started, Wait has not returned: ProcessState is nil
	doneChan := make(chan bool, 1)
	stubborn := verifapi.Bool()
	returned := make(chan struct{})
	go func() {
		termThenKill(cmd, doneChan)
		close(returned)
	}()
	verifapi.Quiesce()
	verifapi.Assert("interrupt-sent-first", len(calls) >= 1 && calls[0] == "signal")
	if stubborn {
		verifapi.AdvanceTime(10 * time.Second)
	} else {
		doneChan <- true // cmdWaiter: the payload exited on the interrupt
	}
	verifapi.Quiesce()
	verifapi.Cover("cancel-handler-finished")
	select {
	case <-returned:
	default:
		verifapi.Assert("cancel-handler-returns", false)
	}
	killed := false
	for _, c := range calls {
		if c == "kill" {
			killed = true
		}
	}
	if stubborn {
		verifapi.Assert("payload-that-ignores-the-interrupt-is-killed", killed)
	}
}

// Verif_C13_cancel_after_an_early_cancel: a unit is cancelled once before its runner has recorded a
// process (nothing to stop yet - e.g. a second client cancels while the submitter is still sending
// input), the unit starts all the same, and it is cancelled (or released) again: this time there IS a
// process, and it is interrupted and the unit recorded as cancelled. Process handling = recording model.
func Verif_C13_cancel_after_an_early_cancel() {
	dir := verifapi.TempDir()
	wk := verifWorkceptor(dir)
	verifapi.Assert("register", wk.w.RegisterWorker("cmd", verifCmdCfg().NewWorker, false) == nil)
	verifapi.FixRandom("unit0081")
	unit, err := wk.w.AllocateUnit("cmd", map[string]string{})
	verifapi.Assert("allocated", err == nil)
	var signalled []int
	verifapi.Redirect("os.FindProcess", func(pid int) (*os.Process, error) { return &os.Process{Pid: pid}, nil })
	verifapi.Redirect("(*os.Process).Signal", func(p *os.Process, sig os.Signal) error {
		signalled = append(signalled, p.Pid)
		return nil
	})
	verifapi.Redirect("(*os.Process).Wait", func(p *os.Process) (*os.ProcessState, error) { return nil, nil })
	verifapi.Redirect("(*os.Process).Release", func(p *os.Process) error { return nil })
	early := verifapi.Bool()
	if early {
		verifapi.Assert("early-cancel-reports-success", unit.Cancel() == nil)
		verifapi.Assert("nothing-to-signal-yet", len(signalled) == 0)
	}
	// the runner starts and records its process
	unit.UpdateFullStatus(func(st *StatusFileData) {
		st.State, st.Detail = WorkStateRunning, "Running: PID 77"
		if ced, ok := st.ExtraData.(*CommandExtraData); ok {
			ced.Pid = 77
		}
	})
	second := verifapi.Choose(2) // cancel, or release (which implies cancel)
	if second == 0 {
		verifapi.Assert("cancel-reports-success", unit.Cancel() == nil)
	} else {
		verifapi.Assert("release-reports-success", unit.Release(false) == nil)
	}
	verifapi.Quiesce()
	verifapi.Cover("cancelled-while-running")
	verifapi.Assert("the-unit-s-process-is-interrupted", len(signalled) == 1 && signalled[0] == 77)
	if second == 0 {
		verifapi.Assert("unit-recorded-as-cancelled", unit.Status().State == WorkStateCanceled)
	}
	wk.cancel()
	verifapi.Quiesce()
}

// Verif_C13_finished_remote_unit_survives_its_ttl: a remote unit submitted with a time-to-live started in
// time and was reported Succeeded (or is Running); then the ttl runs out while its local job is still
// open. The expiry only concerns units that never started: the state does not go back to Failed.
func Verif_C13_finished_remote_unit_survives_its_ttl() {
	dir := verifapi.TempDir()
	wk := verifWorkceptor(dir)
	verifapi.FixRandom("unit0095")
	unit, err := wk.w.AllocateRemoteUnit("R", "echo", "tls", "1s", false, map[string]string{})
	verifapi.Assert("allocated", err == nil)
	rw := unit.(*remoteUnit)
	jc := &utils.JobContext{}
	jc.NewJob(context.Background(), 1, false)
	go rw.setExpiration(jc)
	verifapi.Quiesce()
	started := verifapi.Bool()
	state := []int{WorkStateRunning, WorkStateSucceeded}[verifapi.Choose(2)]
	if started {
		rw.UpdateFullStatus(func(st *StatusFileData) {
			st.State, st.Detail, st.StdoutSize = state, "remote says so", 10
			st.ExtraData.(*RemoteExtraData).RemoteUnitID = "rem1"
			st.ExtraData.(*RemoteExtraData).RemoteStarted = true
		})
	}
	verifapi.AdvanceTime(time.Second) // the ttl runs out
	verifapi.Quiesce()
	st := rw.Status()
	verifapi.Cover("ttl-over")
	if started {
		verifapi.Assert("started-unit-keeps-its-state-when-the-ttl-runs-out", verifapi.All(st.State == state, st.StdoutSize == 10))
	} else {
		verifapi.Assert("unit-that-never-started-expires", st.State == WorkStateFailed)
	}
	jc.Cancel()
	wk.cancel()
	verifapi.Quiesce()
}

// Verif_C13_unreachable_node_means_pending_not_failed: remote work submitted to a node that cannot be
// reached right now: the submitter is told the job was submitted (the daemon keeps trying in the
// background), and the unit is reported Pending - not Failed, from which a later successful start
// would have to move it back. A cancel of it is "pending" too, not an error.
func Verif_C13_unreachable_node_means_pending_not_failed() {
	dir := verifapi.TempDir()
	wk := verifWorkceptor(dir)
	verifapi.FixRandom("unit0096")
	cfo := verifNewCFO("unix")
	cfo.stdin = []byte("in")
	resp, err := wk.verifCommand(cfo, map[string]interface{}{"command": "work", "subcommand": "submit", "node": "R", "worktype": "echo", "tlsclient": "tls"})
	verifapi.Quiesce()
	verifapi.Cover("submit-answered")
	verifapi.Assert("submission-to-an-unreachable-node-is-accepted-as-pending", verifapi.All(err == nil, resp != nil, resp["result"] == "Job Submitted"))
	id, _ := resp["unitid"].(string)
	unit := wk.w.activeUnits[id]
	verifapi.Assert("unit-known", unit != nil)
	verifapi.Assert("unit-not-reported-failed-while-the-daemon-keeps-trying", unit.Status().State == WorkStatePending)
	wk.cancel()
	verifapi.Quiesce()
}
