package workceptor

import (
	"bufio"
	"context"
	"fmt"
	"io"
	"net"
	"os"
	"time"

	"github.com/ansible/receptor/internal/verifapi"
	"github.com/ansible/receptor/pkg/utils"
)

// C05, remote half: the local copy of a remote unit's output is at every moment a prefix of the remote
// output and becomes equal to it, across broken and re-established connections.
//
// The real monitorRemoteStdout runs against a model of the remote control service (engine only:
// connectToRemote is replaced): each connection accepts one "work results" request, answers with the
// header line and the remote output from the requested offset, delivered in chunks of the harness's
// choosing (header alone or together with the first output bytes), and may break at any chunk
// boundary (as an error or as a clean end of stream); connection attempts may fail.

type verifRemote struct {
	output   []byte // the remote unit's complete output
	local    string // name of the local copy
	requests int
	breaks   int // links still to be broken
	ok       *bool
}

type verifRemoteConn struct {
	r      *verifRemote
	line   []byte
	chunks [][]byte
	broken bool
	hard   bool // a broken link reports an error (true) or a clean end of stream (false)
	closed bool
}

func (c *verifRemoteConn) Write(p []byte) (int, error) {
	if c.closed {
		return 0, io.ErrClosedPipe
	}
	c.line = append(c.line, p...)
	if len(c.line) == 0 || c.line[len(c.line)-1] != '\n' {
		return len(p), nil
	}
	req := map[string]interface{}{}
	verifapi.Assert("request-is-json", verifapi.FromJSON(c.line[:len(c.line)-1], &req))
	c.line = nil
	c.r.requests++
	verifapi.Assert("asks-for-results-of-the-bound-unit", verifapi.All(req["command"] == "work", req["subcommand"] == "results", req["unitid"] == "rem1"))
	var start int
	switch v := req["startpos"].(type) {
	case float64:
		start = int(v)
	case int64:
		start = int(v)
	case int:
		start = v
	default:
		verifapi.Assert("startpos-is-a-number", false)
	}
	// whenever a (new) transfer is requested, the local copy is a prefix of the remote output and the
	// transfer resumes exactly at its end
	have, err := os.ReadFile(c.r.local)
	verifapi.Assert("local-copy-readable", err == nil)
	verifapi.Assert("local-copy-is-a-prefix-of-the-remote-output", verifapi.All(len(have) <= len(c.r.output), verifapi.SameBytes(have, c.r.output[:len(have)])))
	verifapi.Assert("transfer-resumes-at-the-end-of-the-local-copy", start == len(have))
	if start > len(c.r.output) {
		start = len(c.r.output)
	}
	rest := c.r.output[start:]
	header := []byte("Streaming results for work unit rem1\n")
	// chunking: the header alone, or together with the first k output bytes; then the rest byte by byte
	k := verifapi.Choose(len(rest) + 1)
	c.chunks = [][]byte{append(append([]byte{}, header...), rest[:k]...)}
	for i := k; i < len(rest); i++ {
		c.chunks = append(c.chunks, []byte{rest[i]})
	}
	// the link may break after any number of chunks
	if c.r.breaks > 0 && verifapi.Bool() {
		c.r.breaks--
		keep := 1 + verifapi.Choose(len(c.chunks))
		if keep < len(c.chunks) {
			c.chunks = c.chunks[:keep]
			c.broken = true
			c.hard = verifapi.Bool()
		}
	}
	return len(p), nil
}

func (c *verifRemoteConn) Read(p []byte) (int, error) {
	if c.closed {
		return 0, io.ErrClosedPipe
	}
	if len(c.chunks) == 0 {
		if c.broken && c.hard {
			return 0, fmt.Errorf("connection reset")
		}
		return 0, io.EOF
	}
	n := copy(p, c.chunks[0])
	if n < len(c.chunks[0]) {
		c.chunks[0] = c.chunks[0][n:]
	} else {
		c.chunks = c.chunks[1:]
	}
	return n, nil
}

func (c *verifRemoteConn) Close() error                       { c.closed = true; return nil }
func (c *verifRemoteConn) CloseConnection() error             { c.closed = true; return nil }
func (c *verifRemoteConn) CancelRead()                        {}
func (c *verifRemoteConn) LocalAddr() net.Addr                { return verifAddr{"netceptor-A"} }
func (c *verifRemoteConn) RemoteAddr() net.Addr               { return verifAddr{"netceptor-A"} }
func (c *verifRemoteConn) SetDeadline(t time.Time) error      { return nil }
func (c *verifRemoteConn) SetReadDeadline(t time.Time) error  { return nil }
func (c *verifRemoteConn) SetWriteDeadline(t time.Time) error { return nil }

// Verif_C05_remote_mirror: a finished remote unit with 0..3 bytes of (arbitrary) output, of which the
// first 0..len bytes are already stored locally; up to two link failures of either kind at any chunk
// boundary, connection attempts that fail, every chunking of header and data.
func Verif_C05_remote_mirror() {
	dir := verifapi.TempDir()
	wk := verifWorkceptor(dir)
	verifapi.FixRandom("unit0051")
	unit, err := wk.w.AllocateRemoteUnit("R", "echo", "tls", "", false, map[string]string{})
	verifapi.Assert("allocated", err == nil)
	rw := unit.(*remoteUnit)
	output := verifapi.BytesUpTo(3)
	stored := verifapi.Choose(len(output) + 1)
	rw.UpdateFullStatus(func(st *StatusFileData) {
		st.State, st.Detail, st.StdoutSize = WorkStateSucceeded, "done", int64(len(output))
		red := st.ExtraData.(*RemoteExtraData)
		red.RemoteUnitID, red.RemoteStarted = "rem1", true
	})
	verifapi.Assert("stored-part-written", os.WriteFile(rw.StdoutFileName(), output[:stored], 0o600) == nil)
	r := &verifRemote{output: output, local: rw.StdoutFileName(), breaks: 2}
	refusals := verifapi.Choose(2)
	verifapi.Redirect("(*github.com/ansible/receptor/pkg/workceptor.remoteUnit).connectToRemote", func(u *remoteUnit, ctx context.Context) (net.Conn, *bufio.Reader, error) {
		if refusals > 0 {
			refusals--
			return nil, nil, fmt.Errorf("no route to node")
		}
		c := &verifRemoteConn{r: r}
		return c, bufio.NewReader(c), nil
	})
	jc := &utils.JobContext{}
	jc.NewJob(context.Background(), 1, false)
	finished := make(chan struct{})
	go func() {
		rw.monitorRemoteStdout(jc)
		close(finished)
	}()
	ended := false
	for i := 0; i < 12 && !ended; i++ {
		verifapi.Quiesce()
		select {
		case <-finished:
			ended = true
		default:
			verifapi.AdvanceTime(time.Second)
		}
	}
	verifapi.Cover("mirror-ended")
	verifapi.Assert("mirroring-ends-once-everything-is-stored", ended)
	have, rerr := os.ReadFile(rw.StdoutFileName())
	verifapi.Assert("local-copy-equals-the-remote-output", verifapi.All(rerr == nil, verifapi.SameBytes(have, output)))
	if stored < len(output) {
		verifapi.Assert("missing-output-was-fetched-from-the-remote-node", r.requests >= 1)
	}
	wk.cancel()
	verifapi.Quiesce()
}
