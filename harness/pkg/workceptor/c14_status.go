package workceptor

import (
	"os"
	"github.com/ansible/receptor/internal/verifapi"
)

// C14 - status records are updated atomically with respect to every other reader and writer.

// Verif_C14_rmw_serialisable: two independent writers (separate StatusFileData objects, as the daemon
// and the runner process have) each perform one read-modify-write on the same status file while a
// reader loads it, under every schedule within the pre-emption bound (every file-system operation of
// the model is a scheduling point; the advisory lock blocks). No update is lost, fields owned by one
// writer are not wiped by the other, and the reader never sees an empty or half-written record.
func Verif_C14_rmw_serialisable() {
	dir := verifapi.TempDir()
	file := dir + "/status"
	s0 := verifapi.Int64()
	a0, a1 := verifapi.Int64(), verifapi.Int64()
	verifapi.Assume(verifapi.All(s0 >= 0, s0 < 1000, a0 > 0, a0 < 1000, a1 > 0, a1 < 1000, a0 != a1))
	init := &StatusFileData{State: WorkStatePending, Detail: "init", StdoutSize: s0, WorkType: "init"}
	verifapi.Assert("initial-save", init.Save(file) == nil)
	verifapi.ExploreSchedules(2 + verifapi.Tier())
	done := make(chan error, 3)
	go func() {
		sfd := &StatusFileData{}
		done <- sfd.UpdateFullStatus(file, func(st *StatusFileData) {
			st.StdoutSize += a0
			st.Detail = "w0"
		})
	}()
	go func() {
		sfd := &StatusFileData{}
		done <- sfd.UpdateFullStatus(file, func(st *StatusFileData) {
			st.StdoutSize += a1
			st.WorkType = "w1"
		})
	}()
	seen := &StatusFileData{}
	go func() {
		done <- seen.Load(file)
	}()
	var errs []error
	for i := 0; i < 3; i++ {
		errs = append(errs, <-done)
	}
	verifapi.ExploreSchedules(0)
	verifapi.Cover("all-finished")
	for _, e := range errs {
		verifapi.Assert("no-operation-fails", e == nil)
	}
	final := &StatusFileData{}
	verifapi.Assert("final-load", final.Load(file) == nil)
	verifapi.Assert("no-update-lost", final.StdoutSize == s0+a0+a1)
	verifapi.Assert("fields-of-one-writer-not-wiped-by-the-other", verifapi.All(final.Detail == "w0", final.WorkType == "w1"))
	// what the reader saw is the record after some prefix of a serial order
	has0, has1 := seen.Detail == "w0", seen.WorkType == "w1"
	want := s0
	if has0 {
		want += a0
	}
	if has1 {
		want += a1
	}
	verifapi.Assert("reader-sees-a-whole-record", verifapi.All(seen.StdoutSize == want, has0 || seen.Detail == "init", has1 || seen.WorkType == "init"))
}

// Verif_C14_shared_unit: two goroutines of the daemon update the SAME in-memory unit (UpdateBasicStatus
// from a monitor, UpdateFullStatus from a command) while the runner process rewrites the file; the
// in-memory copy and the file end up equal and contain every update.
func Verif_C14_shared_unit() {
	dir := verifapi.TempDir()
	wk := verifWorkceptor(dir)
	bwu := &BaseWorkUnit{}
	verifapi.Assert("mkdir", ModelMkdir(wk.w.dataDir+"/u1") == nil)
	bwu.Init(wk.w, "u1", "cmd", FileSystem{}, nil)
	verifapi.Assert("initial-save", bwu.Save() == nil)
	size := verifapi.Int64()
	verifapi.Assume(verifapi.All(size > 0, size < 1000))
	verifapi.ExploreSchedules(2 + verifapi.Tier())
	done := make(chan bool, 3)
	go func() {
		bwu.UpdateBasicStatus(WorkStateRunning, "running", size)
		done <- true
	}()
	go func() {
		bwu.UpdateFullStatus(func(st *StatusFileData) { st.WorkType = "changed" })
		done <- true
	}()
	go func() {
		// the runner process: its own object on the same file
		sfd := &StatusFileData{}
		_ = sfd.UpdateFullStatus(bwu.StatusFileName(), func(st *StatusFileData) { st.Detail = st.Detail + "+runner" })
		done <- true
	}()
	for i := 0; i < 3; i++ {
		<-done
	}
	verifapi.ExploreSchedules(0)
	verifapi.Cover("all-finished")
	verifapi.Assert("no-update-error", bwu.LastUpdateError() == nil)
	disk := &StatusFileData{}
	verifapi.Assert("final-load", disk.Load(bwu.StatusFileName()) == nil)
	verifapi.Assert("every-update-on-disk", verifapi.All(disk.State == WorkStateRunning, disk.StdoutSize == size, disk.WorkType == "changed"))
	verifapi.Assert("runner-update-not-lost", disk.Detail == "running+runner" || disk.Detail == "Unit Created+runner" || disk.Detail == "running")
	verifapi.Assert("no-lock-left-held", verifapi.HeldLocks() == 0)
}

// ModelMkdir creates a directory through the (real or modelled) file system.
func ModelMkdir(p string) error { return osMkdirAll(p) }

// Verif_C14_update_sequence: the daemon and the runner (separate in-memory copies, as separate
// processes have) take turns updating one status file, four updates in any order of the two writers,
// every value arbitrary (so a writer may repeat exactly what it wrote before while the other wrote in
// between): after EVERY update the stored record holds the values of that update - an update is never
// skipped or applied to a stale copy.
func Verif_C14_update_sequence() {
	dir := verifapi.TempDir()
	file := dir + "/status"
	init := &StatusFileData{State: WorkStatePending, Detail: "i", StdoutSize: 0, WorkType: "cmd"}
	verifapi.Assert("initial-save", init.Save(file) == nil)
	writers := []*StatusFileData{{}, {}}
	for step := 0; step < 3+verifapi.Tier(); step++ {
		w := writers[verifapi.Choose(2)]
		state := verifapi.Choose(5)
		detail := verifapi.String(1)
		size := verifapi.Int64()
		verifapi.Assume(verifapi.All(size >= -1, size < 100))
		before := &StatusFileData{}
		verifapi.Assert("readable-before", before.Load(file) == nil)
		err := w.UpdateBasicStatus(file, state, detail, size)
		verifapi.Assert("update-ok", err == nil)
		after := &StatusFileData{}
		verifapi.Assert("readable-after", after.Load(file) == nil)
		wantSize := size
		if size < 0 {
			wantSize = before.StdoutSize
		}
		verifapi.Assert("stored-record-holds-this-update", verifapi.All(after.State == state, after.Detail == detail, after.StdoutSize == wantSize))
		verifapi.Assert("other-fields-kept", after.WorkType == "cmd")
		verifapi.Assert("writer-copy-equals-stored-record", verifapi.All(w.State == after.State, w.Detail == after.Detail, w.StdoutSize == after.StdoutSize))
	}
	verifapi.Cover("sequence-done")
}

// verifRescanWhileRunnerWrites: the daemon starts again on a data directory whose unit still has a
// live detached runner, and scans the unit at the very moment the runner (another process: its own
// StatusFileData object, the same files) rewrites the status record - every schedule within the
// pre-emption bound, every file-system operation of the model being a scheduling point.
//   - unit found Running: the runner records the final state; the daemon only reads. The daemon never
//     takes a half-written record for a real one: it builds the unit as its registered type (so that it
//     is followed), reports a whole record, and the file ends up exactly as the runner wrote it.
//   - unit found Pending: the runner records its process ID (the only field it touches), the daemon
//     marks the unit failed. Both updates are in the final record, whatever the order.
func verifRescanWhileRunnerWrites() {
	dir := verifapi.TempDir()
	udir := dir + "/A/unit0041"
	file := udir + "/status"
	verifapi.Assert("mkdir", osMkdirAll(udir) == nil)
	foundRunning := verifapi.Bool()
	state0 := WorkStatePending
	if foundRunning {
		state0 = WorkStateRunning
	}
	rec := &StatusFileData{State: state0, Detail: "d", StdoutSize: 3, WorkType: "cmd", ExtraData: &CommandExtraData{Pid: 7, Params: "p"}}
	verifapi.Assert("record-saved", rec.Save(file) == nil)
	verifapi.ExploreSchedules(2)
	done := make(chan error, 1)
	go func() {
		sfd := &StatusFileData{ExtraData: &CommandExtraData{}}
		done <- sfd.UpdateFullStatus(file, func(st *StatusFileData) {
			if foundRunning {
				st.State, st.Detail, st.StdoutSize = WorkStateSucceeded, "exit 0", 12
			} else if ced, ok := st.ExtraData.(*CommandExtraData); ok {
				ced.Pid = 9
			}
		})
	}()
	wk := verifWorkceptor(dir)
	verifapi.Assert("worker-type-registered-again", wk.w.RegisterWorker("cmd", verifCmdCfg().NewWorker, false) == nil)
	werr := <-done
	verifapi.ExploreSchedules(0)
	verifapi.Quiesce()
	verifapi.Cover("scan-and-rewrite-finished")
	verifapi.Assert("runner-update-succeeds", werr == nil)
	unit, listed := wk.w.activeUnits["unit0041"]
	verifapi.Assert("unit-listed-after-restart", listed)
	_, followed := unit.(*commandUnit)
	verifapi.Assert("unit-rebuilt-as-its-registered-type", followed)
	final := &StatusFileData{ExtraData: &CommandExtraData{}}
	verifapi.Assert("final-record-readable", final.Load(file) == nil)
	fced, _ := final.ExtraData.(*CommandExtraData)
	verifapi.Assert("work-type-and-parameters-kept", verifapi.All(final.WorkType == "cmd", fced != nil, fced.Params == "p"))
	if foundRunning {
		verifapi.Assert("file-is-exactly-what-the-runner-wrote", verifapi.All(final.State == WorkStateSucceeded, final.Detail == "exit 0", final.StdoutSize == 12, fced.Pid == 7))
		st := unit.Status()
		verifapi.Assert("daemon-holds-a-whole-record", verifapi.All(st.WorkType == "cmd",
			verifapi.Any(verifapi.All(st.State == WorkStateRunning, st.StdoutSize == 3, st.Detail == "d"),
				verifapi.All(st.State == WorkStateSucceeded, st.StdoutSize == 12, st.Detail == "exit 0"))))
	} else {
		verifapi.Assert("runner-update-not-lost", fced.Pid == 9)
		verifapi.Assert("daemon-update-not-lost", verifapi.All(final.State == WorkStateFailed, final.Detail == "Pending at restart"))
	}
	wk.cancel()
	verifapi.Quiesce()
	verifapi.Assert("no-lock-left-held", verifapi.HeldLocks() == 0)
}

// Verif_C14_rescan_while_runner_writes: see verifRescanWhileRunnerWrites (atomicity of the record
// with respect to the restarted daemon's scan).
func Verif_C14_rescan_while_runner_writes() { verifRescanWhileRunnerWrites() }

// Verif_C14_stdout_size_vs_state_writer: the output writer records a new output size (saveStdoutSize, as
// STDoutWriter.Write does for every chunk) while another writer of the same record (another goroutine
// or process) changes state and detail, every schedule within the pre-emption bound: the record ends up
// with the new size AND the other writer's state and detail.
func Verif_C14_stdout_size_vs_state_writer() {
	dir := verifapi.TempDir()
	file := dir + "/status"
	size := verifapi.Int64()
	verifapi.Assume(verifapi.All(size > 3, size < 1000))
	init := &StatusFileData{State: WorkStateRunning, Detail: "step 1", StdoutSize: 3, WorkType: "cmd"}
	verifapi.Assert("initial-save", init.Save(file) == nil)
	verifapi.ExploreSchedules(2 + verifapi.Tier())
	done := make(chan error, 2)
	go func() { done <- saveStdoutSize(dir, size) }()
	go func() {
		sfd := &StatusFileData{}
		done <- sfd.UpdateFullStatus(file, func(st *StatusFileData) {
			st.State, st.Detail = WorkStateSucceeded, "step 2"
		})
	}()
	e1, e2 := <-done, <-done
	verifapi.ExploreSchedules(0)
	verifapi.Cover("both-writers-finished")
	verifapi.Assert("no-operation-fails", verifapi.All(e1 == nil, e2 == nil))
	final := &StatusFileData{}
	verifapi.Assert("final-load", final.Load(file) == nil)
	verifapi.Assert("output-size-recorded", final.StdoutSize == size)
	verifapi.Assert("other-writer-s-update-not-lost", verifapi.All(final.State == WorkStateSucceeded, final.Detail == "step 2", final.WorkType == "cmd"))
}

// Verif_C14_state_update_leaves_the_size_alone: the daemon records a new state with "leave the output
// size as it is" (UpdateBasicStatus(..., -1), as Cancel does) while the output writer stores a chunk and
// records the new size (the stdout file grows, then saveStdoutSize), every schedule within the
// pre-emption bound. Whatever the order, the record ends up with the writer's size and the daemon's
// state: the state update never puts an older size back.
func Verif_C14_state_update_leaves_the_size_alone() {
	dir := verifapi.TempDir()
	wk := verifWorkceptor(dir)
	bwu := &BaseWorkUnit{}
	udir := wk.w.dataDir + "/u2"
	verifapi.Assert("mkdir", ModelMkdir(udir) == nil)
	bwu.Init(wk.w, "u2", "cmd", FileSystem{}, nil)
	verifapi.Assert("stdout", os.WriteFile(udir+"/stdout", []byte("abc"), 0o600) == nil)
	bwu.UpdateBasicStatus(WorkStateRunning, "running", 3)
	verifapi.ExploreSchedules(2 + verifapi.Tier())
	done := make(chan bool, 2)
	go func() {
		bwu.UpdateBasicStatus(WorkStateCanceled, "Canceled", -1)
		done <- true
	}()
	go func() {
		f, err := os.OpenFile(udir+"/stdout", os.O_APPEND|os.O_WRONLY, 0o600)
		if err == nil {
			_, _ = f.Write([]byte("defgh"))
			_ = f.Close()
		}
		_ = saveStdoutSize(udir, 8)
		done <- true
	}()
	<-done
	<-done
	verifapi.ExploreSchedules(0)
	verifapi.Cover("both-finished")
	final := &StatusFileData{}
	verifapi.Assert("final-load", final.Load(udir+"/status") == nil)
	verifapi.Assert("daemon-state-recorded", verifapi.All(final.State == WorkStateCanceled, final.Detail == "Canceled"))
	verifapi.Assert("writer-s-size-not-overwritten-by-the-state-update", final.StdoutSize == 8)
	wk.cancel()
	verifapi.Quiesce()
}

// Verif_C14_cleared_field_stays_cleared: writer B holds a long-lived copy of the record (with the
// runner's extra data in it); writer A clears the extra data (as the command unit does when its runner
// has exited); then B makes an ordinary update of state and detail through its long-lived copy, and a
// reader that re-uses one object loads the record again. The cleared field stays cleared: B's re-read
// under the lock replaces EVERYTHING B held, including fields that are now empty.
func Verif_C14_cleared_field_stays_cleared() {
	dir := verifapi.TempDir()
	file := dir + "/status"
	init := &StatusFileData{State: WorkStateRunning, Detail: "running", StdoutSize: 3, WorkType: "cmd", ExtraData: &CommandExtraData{Pid: 77, Params: "p"}}
	verifapi.Assert("initial-save", init.Save(file) == nil)
	b := &StatusFileData{ExtraData: &CommandExtraData{}}
	reader := &StatusFileData{ExtraData: &CommandExtraData{}}
	verifapi.Assert("b-loads", b.Load(file) == nil)
	verifapi.Assert("reader-loads", reader.Load(file) == nil)
	a := &StatusFileData{ExtraData: &CommandExtraData{}}
	verifapi.Assert("a-clears", a.UpdateFullStatus(file, func(st *StatusFileData) { st.ExtraData = nil }) == nil)
	verifapi.Assert("b-updates", b.UpdateFullStatus(file, func(st *StatusFileData) { st.State, st.Detail = WorkStateSucceeded, "exit 0" }) == nil)
	verifapi.Assert("reader-reloads", reader.Load(file) == nil)
	final := &StatusFileData{}
	verifapi.Assert("final-load", final.Load(file) == nil)
	verifapi.Cover("sequence-done")
	verifapi.Assert("later-update-recorded", verifapi.All(final.State == WorkStateSucceeded, final.Detail == "exit 0", final.WorkType == "cmd"))
	verifapi.Assert("cleared-field-stays-cleared-on-disk", final.ExtraData == nil)
	verifapi.Assert("cleared-field-stays-cleared-for-a-reader-that-reuses-its-object", reader.ExtraData == nil)
}
