package framer

import (
	"bytes"

	"github.com/ansible/receptor/internal/verifapi"
)

// Verif_C02_frames_any_chunking: two messages framed by SendData, concatenated, delivered to
// RecvData in arbitrary chunks; GetMessage must return exactly the two payloads in order,
// never earlier than complete, never bytes of the next frame.
func Verif_C02_frames_any_chunking() {
	B := 3
	m1 := verifapi.BytesUpTo(B)
	m2 := verifapi.BytesUpTo(B)
	tx := New()
	stream := append(append([]byte{}, tx.SendData(m1)...), tx.SendData(m2)...)
	rx := New()
	var got [][]byte
	pos := 0
	for pos < len(stream) {
		n := 1 + verifapi.Choose(len(stream)-pos)
		rx.RecvData(stream[pos : pos+n])
		pos += n
		for rx.MessageReady() {
			msg, err := rx.GetMessage()
			verifapi.Assert("get-after-ready-succeeds", err == nil)
			got = append(got, append([]byte{}, msg...))
		}
		// nothing may be delivered before its last byte has arrived
		want := 0
		if pos >= len(m1)+2 {
			want = 1
		}
		if pos >= len(stream) {
			want = 2
		}
		verifapi.Assert("delivered-count-matches-arrived-frames", len(got) == want)
	}
	verifapi.Cover("all-delivered")
	verifapi.Assert("two-messages", len(got) == 2)
	verifapi.Assert("first-intact", bytes.Equal(got[0], m1))
	verifapi.Assert("second-intact", bytes.Equal(got[1], m2))
	_, err := rx.GetMessage()
	verifapi.Assert("no-phantom-message", err != nil)
}

// Verif_C02_frame_header: the header written by SendData is the payload length and the
// payload follows unchanged (arbitrary content, length 0..4).
func Verif_C02_frame_header() {
	m := verifapi.BytesUpTo(4)
	f := New().SendData(m)
	verifapi.Assert("frame-length", len(f) == len(m)+2)
	verifapi.Assert("header-le16", int(f[0])|int(f[1])<<8 == len(m))
	verifapi.Assert("payload", bytes.Equal(f[2:], m))
}

// Verif_C02_garbage_stream: arbitrary stream bytes never panic the receiver and a message is
// reported ready exactly when the buffer holds header+length bytes.
func Verif_C02_garbage_stream() {
	raw := verifapi.BytesUpTo(5)
	rx := New()
	rx.RecvData(raw)
	ready := rx.MessageReady()
	if len(raw) >= 2 {
		sz := int(raw[0]) | int(raw[1])<<8
		verifapi.Assert("ready-iff-complete", ready == (len(raw) >= sz+2))
	} else {
		verifapi.Assert("short-not-ready", !ready)
	}
	msg, err := rx.GetMessage()
	verifapi.Assert("get-consistent-with-ready", (err == nil) == ready)
	if err == nil {
		verifapi.Cover("got-message")
		verifapi.Assert("message-is-prefix-payload", bytes.Equal(msg, raw[2:2+len(msg)]))
	}
}

// Verif_C07_stream_bytes (property C07): whatever bytes a stream peer sends, in whatever chunks, the
// receive loop of the stream backends (feed the framer until it reports a message, then take it) never
// panics, reports a message only when header+length bytes are there, and hands out exactly that many.
func Verif_C07_stream_bytes() {
	raw := verifapi.BytesUpTo(5)
	cut := verifapi.Choose(len(raw) + 1)
	rx := New()
	rx.RecvData(raw[:cut])
	if !rx.MessageReady() {
		rx.RecvData(raw[cut:])
	}
	verifapi.Cover("stream-consumed")
	if rx.MessageReady() {
		verifapi.Cover("message-reported")
		sz := int(raw[0]) | int(raw[1])<<8
		verifapi.Assert("message-reported-only-when-complete", len(raw) >= sz+2)
		msg, err := rx.GetMessage()
		verifapi.Assert("reported-message-can-be-taken", verifapi.All(err == nil, len(msg) == sz))
	} else {
		_, err := rx.GetMessage()
		verifapi.Assert("incomplete-message-is-an-error-not-a-crash", err != nil)
	}
}
