package utils

import (
	"crypto/x509"
	"crypto/x509/pkix"
	"encoding/asn1"
	"fmt"
	"net"

	"github.com/ansible/receptor/internal/verifapi"
	"github.com/ansible/receptor/pkg/logger"
)

// C20 - issued certificates carry exactly the requested names (the hand-made subjectAltName).
//
// encoding/asn1 works by reflection and cannot be executed symbolically. Under the engine its three
// entry points used here are replaced by the DER models below (X.690 definite-length TLVs for exactly
// the shapes other_name.go marshals and unmarshals). Natively the real encoding/asn1 runs, so every
// native replay of an engine path is a differential test of these models.

func verifDERLen(n int) []byte {
	switch {
	case n < 128:
		return []byte{byte(n)}
	case n < 256:
		return []byte{0x81, byte(n)}
	case n < 65536:
		return []byte{0x82, byte(n >> 8), byte(n)}
	}
	return []byte{0x83, byte(n >> 16), byte(n >> 8), byte(n)}
}

func verifTLV(tag byte, content []byte) []byte {
	out := append([]byte{tag}, verifDERLen(len(content))...)
	return append(out, content...)
}

func verifBase128(v int) []byte {
	var out []byte
	for sh := 28; sh >= 0; sh -= 7 {
		d := byte(v>>uint(sh)) & 0x7f
		if len(out) == 0 && d == 0 && sh != 0 {
			continue
		}
		if sh != 0 {
			d |= 0x80
		}
		out = append(out, d)
	}
	return out
}

func verifOIDBytes(oid asn1.ObjectIdentifier) []byte {
	content := verifBase128(oid[0]*40 + oid[1])
	for _, arc := range oid[2:] {
		content = append(content, verifBase128(arc)...)
	}
	return verifTLV(0x06, content)
}

// verifMarshal models asn1.Marshal for OtherNameEncode and []asn1.RawValue.
func verifMarshal(val interface{}) ([]byte, error) {
	switch v := val.(type) {
	case OtherNameEncode:
		utf := verifTLV(0x0c, []byte(v.Value.A))
		explicit := verifTLV(0xa0, utf)
		return verifTLV(0x30, append(verifOIDBytes(v.OID), explicit...)), nil
	case []asn1.RawValue:
		var content []byte
		for _, rv := range v {
			if len(rv.FullBytes) != 0 {
				content = append(content, rv.FullBytes...)
				continue
			}
			tag := byte(rv.Class<<6) | byte(rv.Tag)
			if rv.IsCompound {
				tag |= 0x20
			}
			content = append(content, verifTLV(tag, rv.Bytes)...)
		}
		return verifTLV(0x30, content), nil
	}
	verifapi.Unsupported("asn1.Marshal model: unexpected type")
	return nil, nil
}

// verifParseTLV splits one DER element off b.
func verifParseTLV(b []byte) (rv asn1.RawValue, rest []byte, err error) {
	if len(b) < 2 {
		return rv, nil, fmt.Errorf("asn1: syntax error: data truncated")
	}
	t := b[0]
	if t&0x1f == 0x1f {
		return rv, nil, fmt.Errorf("asn1: model: high tag numbers not supported")
	}
	rv.Class, rv.IsCompound, rv.Tag = int(t>>6), t&0x20 != 0, int(t&0x1f)
	l := int(b[1])
	off := 2
	if l&0x80 != 0 {
		nb := l & 0x7f
		if nb == 0 {
			return rv, nil, fmt.Errorf("asn1: syntax error: indefinite length found (not DER)")
		}
		if nb > 3 || len(b) < 2+nb {
			return rv, nil, fmt.Errorf("asn1: syntax error: truncated or over-long length")
		}
		l = 0
		for i := 0; i < nb; i++ {
			l = l<<8 | int(b[2+i])
		}
		if b[2] == 0 {
			return rv, nil, fmt.Errorf("asn1: syntax error: superfluous leading zeros in length")
		}
		if l < 128 {
			return rv, nil, fmt.Errorf("asn1: syntax error: non-minimal length")
		}
		off = 2 + nb
	}
	if len(b) < off+l {
		return rv, nil, fmt.Errorf("asn1: syntax error: data truncated")
	}
	rv.Bytes, rv.FullBytes = b[off:off+l], b[:off+l]
	return rv, b[off+l:], nil
}

// verifUnmarshalParams models asn1.UnmarshalWithParams for the targets other_name.go uses.
func verifUnmarshalParams(b []byte, val interface{}, params string) ([]byte, error) {
	rv, rest, err := verifParseTLV(b)
	if err != nil {
		return nil, err
	}
	switch p := val.(type) {
	case *asn1.RawValue:
		*p = rv
		return rest, nil
	case *[]asn1.RawValue:
		if rv.Class != 0 || rv.Tag != 16 || !rv.IsCompound {
			return nil, fmt.Errorf("asn1: structure error: tags don't match (16 vs %d)", rv.Tag)
		}
		out := make([]asn1.RawValue, 0)
		inner := rv.Bytes
		for len(inner) > 0 {
			var e asn1.RawValue
			e, inner, err = verifParseTLV(inner)
			if err != nil {
				return nil, err
			}
			out = append(out, e)
		}
		*p = out
		return rest, nil
	case *string:
		if rv.Class != 0 || rv.IsCompound || !(rv.Tag == 12 || rv.Tag == 19 || rv.Tag == 22 || rv.Tag == 18 || rv.Tag == 20) {
			return nil, fmt.Errorf("asn1: structure error: tags don't match (string vs %d)", rv.Tag)
		}
		*p = string(rv.Bytes)
		return rest, nil
	case *OtherNameDecode:
		wantClass, wantTag := 0, 16
		if params == "tag:0" {
			wantClass, wantTag = 2, 0
		}
		if rv.Class != wantClass || rv.Tag != wantTag || !rv.IsCompound {
			return nil, fmt.Errorf("asn1: structure error: tags don't match")
		}
		id, r2, err := verifParseTLV(rv.Bytes)
		if err != nil {
			return nil, err
		}
		if id.Class != 0 || id.Tag != 6 || id.IsCompound || len(id.Bytes) == 0 {
			return nil, fmt.Errorf("asn1: structure error: tags don't match (6 vs %d)", id.Tag)
		}
		// decode the OID arcs
		var arcs []int
		v := 0
		for i, c := range id.Bytes {
			if v == 0 && c == 0x80 {
				return nil, fmt.Errorf("asn1: syntax error: integer is not minimally encoded")
			}
			v = v<<7 | int(c&0x7f)
			if c&0x80 == 0 {
				if len(arcs) == 0 {
					if v < 80 {
						arcs = append(arcs, v/40, v%40)
					} else {
						arcs = append(arcs, 2, v-80)
					}
				} else {
					arcs = append(arcs, v)
				}
				v = 0
			} else if i == len(id.Bytes)-1 {
				return nil, fmt.Errorf("asn1: syntax error: truncated base 128 integer")
			}
		}
		val2, r3, err := verifParseTLV(r2)
		if err != nil {
			return nil, err
		}
		if len(r3) != 0 {
			return nil, fmt.Errorf("asn1: syntax error: trailing data")
		}
		p.ID, p.Value = asn1.ObjectIdentifier(arcs), val2
		return rest, nil
	}
	verifapi.Unsupported("asn1.Unmarshal model: unexpected target type")
	return nil, nil
}

func verifUnmarshal(b []byte, val interface{}) ([]byte, error) { return verifUnmarshalParams(b, val, "") }

func verifASN1Models() {
	verifapi.Redirect("encoding/asn1.Marshal", verifMarshal)
	verifapi.Redirect("encoding/asn1.Unmarshal", verifUnmarshal)
	verifapi.Redirect("encoding/asn1.UnmarshalWithParams", verifUnmarshalParams)
}

// verifASCII returns an arbitrary ASCII string of exactly n bytes (multi-byte UTF-8 is outside the claim).
func verifASCII(n int) string {
	s := verifapi.String(n)
	for i := 0; i < len(s); i++ {
		verifapi.Assume(s[i] < 0x80)
	}
	return s
}

var verifBoundaryLens = []int{0, 1, 2, 50, 110, 111, 112, 113, 114, 115, 116, 127, 128, 129, 200, 240, 241, 242, 243, 244, 255, 256, 300}

// Verif_C20_san_roundtrip: a subjectAltName built for ANY list of 0..2 node IDs (lengths across every
// DER length-form boundary, arbitrary ASCII content), 0..1 DNS names and 0..1 IP addresses contains
// exactly one value per requested name, in order and with the right tag, and reading the node IDs back
// returns exactly the requested IDs; verification accepts an ID iff it is one of them.
func Verif_C20_san_roundtrip() {
	verifASN1Models()
	var ids []string
	nIDs := verifapi.Choose(3)
	for i := 0; i < nIDs; i++ {
		var n int
		if nIDs == 1 && verifapi.Tier() == 1 {
			n = verifapi.Choose(301) // every length 0..300
		} else if nIDs == 1 {
			n = verifBoundaryLens[verifapi.Choose(len(verifBoundaryLens))]
		} else {
			n = []int{1, 112, 113, 128, 256}[verifapi.Choose(5)]
		}
		// content: first and last byte arbitrary, the middle a fixed filler (the content is opaque to the length arithmetic)
		switch {
		case n <= 4:
			ids = append(ids, verifASCII(n))
		default:
			mid := make([]byte, n-2)
			for k := range mid {
				mid[k] = 'm'
			}
			ids = append(ids, verifASCII(1)+string(mid)+verifASCII(1))
		}
		verifapi.Known("node-id-of-113-bytes-or-more", len(ids[i]) >= 113)
	}
	var dns []string
	if verifapi.Bool() {
		dns = append(dns, verifASCII(2))
	}
	var ips []net.IP
	switch verifapi.Choose(3) {
	case 1:
		ips = append(ips, net.IP(verifapi.Bytes(4)))
	case 2:
		ips = append(ips, net.IP(verifapi.Bytes(16)))
	}
	ext, err := MakeReceptorSAN(dns, ips, ids)
	verifapi.Assert("san-built", err == nil && ext != nil)
	verifapi.Assert("san-extension-id", ext.Id.Equal(OIDSubjectAltName))
	// structure: one raw value per requested name, in order, with tags 2 / 7 / 0
	var values []asn1.RawValue
	rest, err := asn1.Unmarshal(ext.Value, &values)
	verifapi.Assert("san-is-a-sequence", err == nil && len(rest) == 0)
	verifapi.Assert("one-value-per-requested-name", len(values) == len(dns)+len(ips)+len(ids))
	k := 0
	for _, d := range dns {
		verifapi.Assert("dns-name-value", verifapi.All(values[k].Class == 2, values[k].Tag == 2, string(values[k].Bytes) == d))
		k++
	}
	for range ips {
		verifapi.Assert("ip-address-value", verifapi.All(values[k].Class == 2, values[k].Tag == 7, len(values[k].Bytes) == 4 || len(values[k].Bytes) == 16))
		k++
	}
	for range ids {
		verifapi.Assert("node-id-value-tag", verifapi.All(values[k].Class == 2, values[k].Tag == 0, values[k].IsCompound))
		k++
	}
	// reading back
	names, err := ReceptorNames([]pkix.Extension{{Id: asn1.ObjectIdentifier{2, 5, 29, 99}, Value: []byte{1}}, *ext})
	verifapi.Cover("read-back")
	verifapi.Assert("node-ids-read-back-without-error", err == nil)
	verifapi.Assert("node-ids-read-back-count", len(names) == len(ids))
	for i := range ids {
		verifapi.Assert("node-ids-read-back-exactly", names[i] == ids[i])
	}
	// verification accepts exactly the encoded ids
	cert := &x509.Certificate{Extensions: []pkix.Extension{*ext}}
	probe := ""
	if len(ids) > 0 && verifapi.Bool() {
		probe = ids[verifapi.Choose(len(ids))]
	} else {
		probe = verifASCII(1)
	}
	found, got, err := ParseReceptorNamesFromCert(cert, probe, logger.NewReceptorLogger(""))
	member := false
	for _, id := range ids {
		if id == probe {
			member = true
		}
	}
	verifapi.Assert("verification-reads-names", err == nil && len(got) == len(ids))
	verifapi.Assert("verification-accepts-exactly-the-encoded-ids", found == member)
}

// Verif_C20_undecodable_name_is_an_error: a receptor otherName whose inner value is NOT a string (the
// string's tag byte replaced by INTEGER, NULL, OCTET STRING or SEQUENCE - hand-made or foreign DER):
// reading the node IDs back reports an error (or, for the genuine UTF8String tag, exactly the encoded
// ID) - never a different name made up from the raw bytes.
func Verif_C20_undecodable_name_is_an_error() {
	verifASN1Models()
	ext, err := MakeReceptorSAN(nil, nil, []string{"ab"})
	verifapi.Assert("san-built", err == nil && ext != nil && len(ext.Value) > 4)
	v := append([]byte{}, ext.Value...)
	verifapi.Assert("inner-string-is-last", v[len(v)-4] == 0x0c && v[len(v)-3] == 2)
	tag := []byte{0x0c, 0x02, 0x05, 0x04, 0x30}[verifapi.Choose(5)]
	v[len(v)-4] = tag
	names, rerr := ReceptorNames([]pkix.Extension{{Id: ext.Id, Value: v}})
	verifapi.Cover("read-back")
	if tag == 0x0c {
		verifapi.Assert("genuine-string-read-back-exactly", verifapi.All(rerr == nil, len(names) == 1, names[0] == "ab"))
	} else {
		verifapi.Assert("undecodable-name-reported-as-an-error-never-as-another-name", rerr != nil)
	}
}
