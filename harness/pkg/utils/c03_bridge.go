package utils

import (
	"fmt"
	"io"

	"github.com/ansible/receptor/internal/verifapi"
	"github.com/ansible/receptor/pkg/logger"
)

// C03 - mesh streams are ordered byte pipes: the relay glue receptor adds on top of QUIC.
// (QUIC's own reliability under loss and re-routing is quic-go's and is not decided here.)

// verifPipeEnd is one end of a relayed connection: reads follow a script of (n bytes, error) steps -
// the io.Reader contract allows data together with an error - writes are recorded and may come up
// short or fail.
type verifPipeEnd struct {
	reads     [][]byte
	readErrs  []error
	pos       int
	written   *[]byte
	writeOps  *int
	closed    *int
	closedAt  *int // number of bytes written when Close happened
	shortAt   int  // write op index that writes one byte less (-1 never)
	failAt    int  // write op index that fails (-1 never)
	gate      chan struct{}
}

func (p *verifPipeEnd) Read(b []byte) (int, error) {
	if p.pos >= len(p.reads) {
		if p.gate != nil {
			<-p.gate // a side with nothing more to say stays open until released
		}
		return 0, io.EOF
	}
	n := copy(b, p.reads[p.pos])
	err := p.readErrs[p.pos]
	p.pos++
	return n, err
}

func (p *verifPipeEnd) Write(b []byte) (int, error) {
	op := *p.writeOps
	*p.writeOps++
	if op == p.failAt {
		return 0, fmt.Errorf("broken pipe")
	}
	if op == p.shortAt && len(b) > 0 {
		*p.written = append(*p.written, b[:len(b)-1]...)
		return len(b) - 1, nil
	}
	*p.written = append(*p.written, b...)
	return len(b), nil
}

func (p *verifPipeEnd) Close() error {
	*p.closed++
	if *p.closed == 1 {
		*p.closedAt = len(*p.written)
	}
	return nil
}

func verifNewEnd() *verifPipeEnd {
	return &verifPipeEnd{written: &[]byte{}, writeOps: new(int), closed: new(int), closedAt: new(int), shortAt: -1, failAt: -1}
}

// Verif_C03_bridge_half: one direction of the relay with ANY script of up to 3 reads (0..2 arbitrary
// bytes each, possibly returned together with EOF or another error) and a destination whose writes
// may come up short or fail: the bytes written to the destination are exactly the bytes read, in order,
// up to the first problem; the destination is closed exactly once, after the last byte, and only
// when the source ended or a problem occurred.
func Verif_C03_bridge_half() {
	src, dst := verifNewEnd(), verifNewEnd()
	nReads := verifapi.Choose(4)
	var all []byte
	firstErr := -1
	for i := 0; i < nReads; i++ {
		chunk := verifapi.BytesUpTo(2)
		var err error
		switch verifapi.Choose(3) {
		case 1:
			err = io.EOF
		case 2:
			err = fmt.Errorf("connection reset")
		}
		src.reads = append(src.reads, chunk)
		src.readErrs = append(src.readErrs, err)
		if firstErr < 0 {
			all = append(all, chunk...)
			if err != nil {
				firstErr = i
			}
		}
	}
	switch verifapi.Choose(3) {
	case 1:
		dst.shortAt = verifapi.Choose(2)
	case 2:
		dst.failAt = verifapi.Choose(2)
	}
	done := make(chan bool, 1)
	bridgeHalf(src, "src", dst, "dst", done, logger.NewReceptorLogger(""))
	verifapi.Cover("relay-ended")
	verifapi.Assert("completion-signalled", len(done) == 1)
	verifapi.Assert("destination-closed-exactly-once", *dst.closed == 1)
	verifapi.Assert("destination-closed-after-the-last-byte", *dst.closedAt == len(*dst.written))
	verifapi.Assert("source-not-closed-by-this-direction", *src.closed == 0)
	got := *dst.written
	if dst.shortAt < 0 && dst.failAt < 0 {
		verifapi.Cover("clean-destination")
		verifapi.Assert("bytes-relayed-exactly-and-in-order", verifapi.SameBytes(got, all))
	} else {
		// a write problem: what arrived is a prefix of what was read (nothing repeated, reordered or invented)
		verifapi.Cover("write-problem")
		verifapi.Assert("relayed-bytes-are-a-prefix", len(got) <= len(all) && verifapi.SameBytes(got, all[:len(got)]))
	}
}

// Verif_C03_bridge_both: both directions at once through the real BridgeConns: each side's bytes
// arrive at the other side exactly, and when one side ends, the other side sees end-of-stream (its
// connection is closed) only after all data of that direction.
func Verif_C03_bridge_both() {
	a, b := verifNewEnd(), verifNewEnd()
	a.gate, b.gate = make(chan struct{}), make(chan struct{})
	da, db := verifapi.BytesUpTo(2), verifapi.BytesUpTo(2)
	if len(da) > 0 {
		a.reads, a.readErrs = [][]byte{da}, []error{nil}
	}
	if len(db) > 0 {
		b.reads, b.readErrs = [][]byte{db}, []error{nil}
	}
	finished := make(chan bool, 1)
	go func() {
		BridgeConns(a, "a", b, "b", logger.NewReceptorLogger(""))
		finished <- true
	}()
	verifapi.Quiesce()
	verifapi.Assert("a-to-b-bytes-exact", verifapi.SameBytes(*b.written, da))
	verifapi.Assert("b-to-a-bytes-exact", verifapi.SameBytes(*a.written, db))
	verifapi.Assert("nothing-closed-while-both-sides-open", *a.closed == 0 && *b.closed == 0)
	close(a.gate) // side a ends its writing
	verifapi.Quiesce()
	verifapi.Assert("end-of-stream-propagated-to-b", *b.closed == 1)
	verifapi.Assert("bridge-waits-for-the-other-direction", len(finished) == 0)
	close(b.gate)
	verifapi.Quiesce()
	verifapi.Cover("both-ended")
	verifapi.Assert("bridge-returns-when-both-directions-ended", len(finished) == 1)
	verifapi.Assert("each-side-closed-once", *a.closed == 1 && *b.closed == 1)
}
