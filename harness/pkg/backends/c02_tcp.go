package backends

import (
	"io"
	"net"
	"time"

	"github.com/ansible/receptor/internal/verifapi"
)

// C02 over the stream backend: whatever netceptor hands to a TCP session - the 36-byte header plus a
// payload of up to the MTU - leaves as one frame and comes out of the receiving session unchanged.

type verifPipeConn struct {
	buf *[]byte
	pos int
}

func (c *verifPipeConn) Write(p []byte) (int, error) { *c.buf = append(*c.buf, p...); return len(p), nil }
func (c *verifPipeConn) Read(p []byte) (int, error) {
	if c.pos >= len(*c.buf) {
		return 0, io.EOF
	}
	n := copy(p, (*c.buf)[c.pos:])
	c.pos += n
	return n, nil
}
func (c *verifPipeConn) Close() error                       { return nil }
func (c *verifPipeConn) LocalAddr() net.Addr                { return &net.TCPAddr{} }
func (c *verifPipeConn) RemoteAddr() net.Addr               { return &net.TCPAddr{} }
func (c *verifPipeConn) SetDeadline(t time.Time) error      { return nil }
func (c *verifPipeConn) SetReadDeadline(t time.Time) error  { return nil }
func (c *verifPipeConn) SetWriteDeadline(t time.Time) error { return nil }

// Verif_C02_tcp_session_carries_every_datagram: wire messages of header (36 bytes) + payload for the
// payload lengths 0, 1, MTU-36, MTU-35, MTU-1 and MTU (MTU = 16384, netceptor's default), first and last
// byte arbitrary: Send accepts the message and the peer session's Recv returns exactly it.
func Verif_C02_tcp_session_carries_every_datagram() {
	const mtu, header = 16384, 36
	payload := []int{0, 1, mtu - 36, mtu - 35, mtu - 1, mtu}[verifapi.Choose(6)]
	msg := make([]byte, header+payload)
	msg[0] = verifapi.Byte()
	msg[len(msg)-1] = verifapi.Byte()
	wire := &[]byte{}
	tx := newTCPSession(&verifPipeConn{buf: wire}, make(chan struct{}))
	err := tx.Send(msg)
	verifapi.Cover("sent")
	verifapi.Assert("message-within-the-mtu-accepted-by-the-session", err == nil)
	rx := newTCPSession(&verifPipeConn{buf: wire}, make(chan struct{}))
	got, rerr := rx.Recv(time.Second)
	verifapi.Assert("message-received", rerr == nil)
	verifapi.Assert("message-received-unchanged", verifapi.All(len(got) == len(msg), got[0] == msg[0], got[len(got)-1] == msg[len(msg)-1]))
}
