#!/bin/bash
# mutpy.sh <file rel to /repo> <old> <new> <pkgs> <harness regex> [occurrence]: replace the n-th occurrence (default 1), run harnesses, revert
set -u
python3 - "$1" "$2" "$3" "${6:-1}" <<'PY'
import sys
f,old,new,n=sys.argv[1],sys.argv[2],sys.argv[3],int(sys.argv[4])
p='/repo/'+f
s=open(p).read()
idx=-1
for _ in range(n):
    idx=s.index(old,idx+1)
s=s[:idx]+new+s[idx+len(old):]
open(p,'w').write(s)
PY
cd /repo && git diff --stat | tail -1
/verif/run.sh "$4" "$5" 2>&1 | grep -v "^Verif.*paths=" 
git -C /repo checkout -- .
