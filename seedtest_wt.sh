#!/bin/bash
# seedtest_wt.sh <seed dir> <property id> [tier]: development variant of seedtest.sh that leaves /repo alone: the seeded
# change is applied in a scratch worktree of /repo under /tmp and the check runs against that (VERIF_REPO).
# The registered way (seedtest.sh: apply in /repo, check, undo) is what seeded/<id>/meta.json records.
set -u
d=$1; pid=$2; tier=${3:-quick}
wt=/tmp/wt_seedtest_$$
git -C /repo worktree add -q --detach $wt HEAD || exit 2
( cd $wt && git apply "$d/patch.diff" ) || { echo "patch does not apply"; git -C /repo worktree remove --force $wt; exit 2; }
VERIF_REPO=$wt python3 /verif/check.py $pid --tier $tier > /tmp/seedtest_wt.$pid.out 2>&1
rc=$?
git -C /repo worktree remove --force $wt
grep -E "^(VIOLATION|INCONCLUSIVE|OK|FAIL|KNOWN)" /tmp/seedtest_wt.$pid.out | cut -c1-330 | head -8
echo "exit=$rc"
