#!/bin/bash
# run.sh <pkgs> <harness regex> : run harnesses directly and summarise (development helper)
export GOFLAGS=-mod=mod GOPROXY=off GOSUMDB=off GOTOOLCHAIN=local
out=$(mktemp /tmp/gosym.XXXX.json)
/verif/bin/gosym -repo ${REPO:-/repo} -pkgs "$1" -run "$2" -known /verif/known_findings.json -out $out ${3:-} -v 2>&1 | tail -${TAILN:-15}
python3 - $out <<'PY'
import json,sys
d=json.load(open(sys.argv[1]))
if d.get('error'): print('ERROR', d['error'][:3000])
for h in d.get('harnesses') or []:
    print(h['harness'], h['path_ends'], h['covers'], 'incl', h['inconclusive'], 'unsup', h['unsupported'])
    for k in h['known_hits'] or []:
        print('   KNOWN', k['assertion'], k['tags'])
    for v in h['violations'] or []:
        print('   VIOL', v['assertion'], v['message'][:300], v.get('known_tags'), v.get('schedule'), json.dumps(v['inputs'])[:600])
PY
rm -f $out
