#!/usr/bin/env python3
"""validate.py: checks MANIFEST.json and evidence/*.json against the schemas (run with python3-vt)."""
import json, glob, sys
import jsonschema
jsonschema.validate(json.load(open('/verif/MANIFEST.json')), json.load(open('/root/.vp/MANIFEST.schema.json')))
print('manifest ok')
for f in sorted(glob.glob('/verif/evidence/*.json')):
    jsonschema.validate(json.load(open(f)), json.load(open('/root/.vp/EVIDENCE.schema.json')))
    e = json.load(open(f))
    print('ok', f, e['tier'], 'violations', e.get('violations'), 'wall', e['wall_s'])
