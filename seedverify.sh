#!/bin/bash
# seedverify.sh <id>: independent confirmation of a seeded change in its scratch worktree /tmp/wt_<id>:
# demo passes without the patch, fails with it; the touched packages still build and their existing tests pass.
id=$1; wt=/tmp/wt_$id; sd=/tmp/seed_$id
if [ -d $sd/pkg ]; then :; fi
export GOFLAGS=-mod=mod GOPROXY=off GOSUMDB=off
cd $wt || exit 2
git checkout -q -- . ; git clean -fdq
# demo files: either a single zz_seed_demo_test.go (meta says where) or a pkg/ tree
if [ -d $sd/pkg ]; then cp -r $sd/pkg/. $wt/pkg/; else
  pkgdir=$(grep -v '^#' $sd/demo_cmd.txt | grep -m1 -o 'pkg/[a-z]*' | head -1); cp $sd/zz_seed_demo_test.go $wt/$pkgdir/; fi
cmd=$(cat $sd/demo_cmd.txt | grep -v '^#' | grep -m1 'go test')
echo "demo cmd: $cmd"
( eval "$cmd" ) > /tmp/sv.$id.without 2>&1; r0=$?
git apply $sd/patch.diff || { echo "PATCH DOES NOT APPLY"; exit 2; }
go build ./pkg/... ./cmd/... > /tmp/sv.$id.build 2>&1; rb=$?
( eval "$cmd" ) > /tmp/sv.$id.with 2>&1; r1=$?
pkgs=$(grep -o '^+++ b/pkg/[a-z]*' $sd/patch.diff | sed 's#+++ b/#./#' | sort -u | sed 's#$#/...#' | tr '\n' ' ')
go test -count=1 -vet=off -skip 'TestSeed' $pkgs > /tmp/sv.$id.tests 2>&1; rt=$?
fails=$(grep -E '^--- FAIL' /tmp/sv.$id.tests | awk '{print $3}' | sort -u | tr '\n' ' ')
echo "RESULT id=$id demo_without_patch_exit=$r0 build_exit=$rb demo_with_patch_exit=$r1 existing_tests_exit=$rt failing_tests=[$fails] pkgs=$pkgs"
