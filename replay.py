#!/usr/bin/env python3
"""replay.py <cex.json>: re-runs a counterexample natively against /repo's current tree."""
import json, sys, os
sys.path.insert(0, os.path.dirname(os.path.abspath(__file__)))
import check
c = json.load(open(sys.argv[1]))
d = check.find_harness_dir(c["harness"])
names = []
import glob, re
for path in glob.glob(os.path.join(check.HARNESS, d, "*.go")):
    names += re.findall(r"^func (Verif_\w+)\(\)", open(path).read(), re.M)
rc, out = check.native_run(d, names, [(c["harness"], os.path.abspath(sys.argv[1]))], 60)
print(out[-4000:])
print("native outcome:", check.classify(rc, out))
sys.exit(0 if check.classify(rc, out) == "pass" else 1)
