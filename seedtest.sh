#!/bin/bash
# seedtest.sh <seed dir> <property id> [tier]: apply a seeded change to /repo, run the property's check, undo the change.
set -u
d=$1; pid=$2; tier=${3:-quick}
cd /repo || exit 2
if ! git diff --quiet; then echo "/repo has uncommitted changes"; exit 2; fi
git apply "$d/patch.diff" || { echo "patch does not apply"; exit 2; }
python3 /verif/check.py $pid --tier $tier > /tmp/seedtest.$pid.out 2>&1
rc=$?
git -C /repo checkout -- .
grep -E "^(VIOLATION|INCONCLUSIVE|OK|FAIL|KNOWN)" /tmp/seedtest.$pid.out | cut -c1-330 | head -8
echo "exit=$rc"
