#!/usr/bin/env python3
"""Regenerates /verif/MANIFEST.json from checks.py (claimed checks) and properties.jsonl."""
import json, os, sys

VERIF = os.path.dirname(os.path.abspath(__file__))
sys.path.insert(0, VERIF)
from checks import CHECKS, NOT_APPLICABLE  # noqa: E402

props = [json.loads(l) for l in open(os.path.join(VERIF, "properties.jsonl"))]
checks, na = [], []
for p in props:
    pid = p["id"]
    c = CHECKS.get(pid)
    if c is None or not c.get("claimed", True):
        na.append({"property_id": pid, "reason": NOT_APPLICABLE.get(pid, "check not built yet (engine under construction)")})
        continue
    checks.append({
        "property_id": pid,
        "quick_cmd": "python3 /verif/check.py %s --tier quick" % pid,
        "thorough_cmd": "python3 /verif/check.py %s --tier thorough" % pid,
        "evidence_file": "/verif/evidence/%s.json" % pid,
        "replay_cmd_template": "python3 /verif/replay.py {path}",
        "engine": "gosym",
        "level_claimed": {"category": "model_checking", "text": c["level_text"], "design_ref": "DESIGN.md section 3, " + pid},
        "level_note": c["level_note"],
        "technique": c.get("technique", "bounded symbolic execution of the real Go code (own go/ssa -> SMT-LIB2 encoder, z3); counterexamples replayed natively"),
    })
m = {
    "version": 1,
    "setup_cmd": "cd /verif/engine && GOFLAGS=-mod=mod GOPROXY=off GOSUMDB=off GOTOOLCHAIN=local go build -o /verif/bin/gosym ./cmd/gosym",
    "hooks": {
        "guard": "verif",
        "enable": "no hook is compiled into /repo: harnesses are injected with go/packages overlays (engine) and go test -overlay (native replay)",
        "baseline_off_cmd": "cd /repo && GOFLAGS=-mod=mod go test -json -vet=off -count=1 -timeout 25m ./...",
        "source_commits": [],
        "add_only": True,
    },
    "engines": [{
        "name": "gosym", "path": "/verif/engine", "serves_properties": [c["property_id"] for c in checks],
        "kind_free_text": "own bounded symbolic executor for go/ssa emitting SMT-LIB2 for z3 (path forking by re-execution, "
                          "symbolic scalars/bytes, concrete heap shape, engine threads for goroutines, stubs for libraries)",
    }],
    "checks": checks,
    "not_applicable": na,
    "notes": "Every check regenerates its encoding from /repo's working tree on each run. Exit 2 + INCONCLUSIVE is used when a "
             "harness no longer compiles against the tree, an unsupported construct is met or the solver answers unknown.",
}
json.dump(m, open(os.path.join(VERIF, "MANIFEST.json"), "w"), indent=1)
print("claimed:", [c["property_id"] for c in checks])
