package gosym

import (
	"fmt"
	"go/constant"
	"go/token"
	"go/types"
	"math/big"
	"os"
	"runtime/debug"
	"strings"
	"unicode/utf8"

	"golang.org/x/tools/go/ssa"
)

var traceCalls = os.Getenv("GOSYM_TRACE") != ""

func stackTrace() string { return string(debug.Stack()) }

type deferred struct {
	fn   *FuncVal
	args []Value
	// invoke
	recv   *IfaceVal
	method *types.Func
	bi     *ssa.Builtin
}

// Frame is one activation record.
type Frame struct {
	fn        *ssa.Function
	env       map[ssa.Value]Value
	defers    []*deferred
	panicking *goPanic
	visits    map[*ssa.BasicBlock]int
	results   Value
}

type sliceData struct{ s *SliceVal }

func rtPanic(msg string) { panic(&goPanic{msg: "runtime error: " + msg}) }

func (ex *Exec) constValue(c *ssa.Const) Value {
	t := c.Type()
	if c.Value == nil {
		return zeroValue(t)
	}
	b, ok := t.Underlying().(*types.Basic)
	if !ok {
		if _, isIface := t.Underlying().(*types.Interface); isIface {
			unsupportedf("non-nil constant of interface type")
		}
		unsupportedf("constant of type %s", t)
	}
	switch {
	case b.Info()&types.IsBoolean != 0:
		return MkBool(constant.BoolVal(c.Value))
	case b.Info()&types.IsInteger != 0:
		w := basicWidth(b)
		if b.Info()&types.IsUnsigned != 0 {
			return MkBV(c.Uint64(), w)
		}
		return MkBV(uint64(c.Int64()), w)
	case b.Info()&types.IsFloat != 0:
		return MkRealF(c.Float64())
	case b.Info()&types.IsString != 0:
		return StrConst(constant.StringVal(c.Value))
	}
	unsupportedf("constant kind %s", t)
	return nil
}

func (t *Thread) get(fr *Frame, v ssa.Value) Value {
	switch x := v.(type) {
	case *ssa.Const:
		return t.ex.constValue(x)
	case *ssa.Function:
		return &FuncVal{Fn: x}
	case *ssa.Global:
		return t.ex.globalCell(t, x)
	case *ssa.Builtin:
		return &FuncVal{Bi: x}
	}
	r, ok := fr.env[v]
	if !ok {
		panic(fmt.Sprintf("engine: no value for %s (%T) in %s", v.Name(), v, fr.fn))
	}
	return r
}

func (ex *Exec) globalCell(t *Thread, g *ssa.Global) *Cell {
	if c, ok := ex.globals[g]; ok {
		return c
	}
	ex.ensureInit(t, g.Pkg)
	if c, ok := ex.globals[g]; ok {
		return c
	}
	c := newCell(g.Type().(*types.Pointer).Elem())
	ex.globals[g] = c
	return c
}

// ensureInit runs the package-level variable initialisers of pkg (not user init() functions,
// not the init of imported packages) the first time one of its globals is touched.
func (ex *Exec) ensureInit(t *Thread, pkg *ssa.Package) {
	if pkg == nil || ex.initDone[pkg] {
		return
	}
	ex.initDone[pkg] = true
	if !ex.prog.interpretable(pkg.Pkg.Path()) && !initOnly[pkg.Pkg.Path()] {
		return
	}
	// allocate all globals first
	for _, m := range pkg.Members {
		if g, ok := m.(*ssa.Global); ok {
			if _, ok := ex.globals[g]; !ok {
				ex.globals[g] = newCell(g.Type().(*types.Pointer).Elem())
			}
		}
	}
	initFn := pkg.Func("init")
	if initFn == nil || len(initFn.Blocks) == 0 {
		return
	}
	fr := &Frame{fn: initFn, env: map[ssa.Value]Value{}, visits: map[*ssa.BasicBlock]int{}}
	// mark guard so the body runs
	t.runInit(fr)
}

func (t *Thread) runInit(fr *Frame) {
	defer func() {
		if r := recover(); r != nil {
			if u, ok := r.(*unsupported); ok {
				panic(&unsupported{"in package init of " + fr.fn.Pkg.Pkg.Path() + ": " + u.msg})
			}
			panic(r)
		}
	}()
	t.run(fr)
}

// callFunc calls a function value.
func (t *Thread) callFunc(f *FuncVal, args []Value) Value {
	if f == nil {
		rtPanic("invalid memory address or nil pointer dereference (call of nil func)")
	}
	if f.Bi != nil {
		return t.builtin(nil, f.Bi, args, nil)
	}
	return t.call(f.Fn, args, f.Env)
}

func (t *Thread) call(fn *ssa.Function, args []Value, env []Value) Value {
	ex := t.ex
	name := fn.String()
	if r, ok := ex.redirect[name]; ok {
		fn = r
		name = fn.String()
	}
	if fv, ok := ex.dynRedirect[name]; ok {
		// harness-declared model of a library function (verifapi.Redirect)
		return t.callFunc(fv, args)
	}
	if fn.Name() == "init" || strings.HasPrefix(fn.Name(), "init#") {
		return nil // package initialisation is lazy (ensureInit); user init() functions are not run
	}
	if strings.HasPrefix(name, apiP) {
		if k := strings.IndexByte(name, '['); k > 0 {
			name = name[:k] // generic instantiation of a verifapi function
		}
	}
	if h, ok := intrinsics[name]; ok {
		return h(t, fn, args)
	}
	if h := prefixIntrinsic(name, fn); h != nil {
		return h(t, fn, args)
	}
	if len(fn.Blocks) == 0 {
		unsupportedf("call of function without body: %s", name)
	}
	if interpretFuncs[name] {
		// a pure function of a package that is otherwise reached through stubs only
	} else if fn.Pkg != nil && !ex.prog.interpretable(fn.Pkg.Pkg.Path()) {
		unsupportedf("call into non-interpretable package: %s", name)
	} else if fn.Pkg == nil {
		// synthetic wrappers / instantiations: judge by origin or by the method's package
		if p := funcPkgPath(fn); p != "" && !ex.prog.interpretable(p) {
			unsupportedf("call into non-interpretable package: %s", name)
		}
	}
	if traceCalls {
		fmt.Fprintf(os.Stderr, "[T%d]%s%s\n", t.ID, strings.Repeat(" ", t.depth), name)
	}
	t.depth++
	if t.depth > ex.H.Opt.MaxDepth {
		ex.H.incObl()
		ex.H.recordViolationPC(ex, "no-unbounded-recursion", fmt.Sprintf("call depth exceeds %d at %s", ex.H.Opt.MaxDepth, name))
		ex.end("depth-bound")
	}
	prevWhere := t.where
	t.where = name
	defer func() { t.depth--; t.where = prevWhere }()
	if ex.funcs != nil && fn.Synthetic == "" {
		ex.funcs[name] = true
	}
	fr := &Frame{fn: fn, env: make(map[ssa.Value]Value, 16), visits: map[*ssa.BasicBlock]int{}}
	for i, p := range fn.Params {
		fr.env[p] = args[i]
	}
	for i, fv := range fn.FreeVars {
		fr.env[fv] = env[i]
	}
	return t.run(fr)
}

func funcPkgPath(fn *ssa.Function) string {
	if fn.Pkg != nil {
		return fn.Pkg.Pkg.Path()
	}
	if o := fn.Origin(); o != nil && o.Pkg != nil {
		return o.Pkg.Pkg.Path()
	}
	if obj := fn.Object(); obj != nil && obj.Pkg() != nil {
		return obj.Pkg().Path()
	}
	if fn.Signature.Recv() != nil {
		rt := fn.Signature.Recv().Type()
		if p, ok := rt.(*types.Pointer); ok {
			rt = p.Elem()
		}
		if n, ok := rt.(*types.Named); ok && n.Obj().Pkg() != nil {
			return n.Obj().Pkg().Path()
		}
	}
	return ""
}

// run executes a frame to completion, handling Go panics, defers and recover.
func (t *Thread) run(fr *Frame) Value {
	blk := fr.fn.Blocks[0]
	for {
		pan := t.runFrom(fr, blk)
		if pan == nil {
			return fr.results
		}
		fr.panicking = pan
		for fr.panicking != nil && len(fr.defers) > 0 {
			p2 := t.runDefersCatch(fr)
			if p2 != nil {
				fr.panicking = p2
			}
		}
		if fr.panicking != nil {
			panic(fr.panicking)
		}
		// recovered
		for len(fr.defers) > 0 {
			if p2 := t.runDefersCatch(fr); p2 != nil {
				panic(p2)
			}
		}
		if fr.fn.Recover != nil {
			blk = fr.fn.Recover
			continue
		}
		res := fr.fn.Signature.Results()
		switch res.Len() {
		case 0:
			return nil
		case 1:
			return zeroValue(res.At(0).Type())
		}
		return zeroValue(res)
	}
}

// runFrom runs blocks until return; a Go-level panic of the program is returned.
func (t *Thread) runFrom(fr *Frame, blk *ssa.BasicBlock) (pan *goPanic) {
	defer func() {
		if r := recover(); r != nil {
			if gp, ok := r.(*goPanic); ok {
				if gp.msg != "" && gp.val == nil {
					gp.val = &IfaceVal{T: types.Typ[types.String], V: StrConst(gp.msg)}
				}
				pan = gp
				return
			}
			panic(r)
		}
	}()
	var prev *ssa.BasicBlock
	for blk != nil {
		next := t.runBlock(fr, blk, prev)
		prev = blk
		if next != nil && next.Index <= blk.Index {
			fr.visits[next]++
			limit := t.ex.unwind
			if t.ex.unwindFn != "" && !strings.Contains(fr.fn.String(), t.ex.unwindFn) {
				limit = t.ex.H.Opt.Unwind // the harness bound applies to the named function only
			}
			if fr.visits[next] > limit {
				t.ex.unwindOverrun(fr.fn.String())
			}
		}
		blk = next
	}
	return nil
}

func (ex *Exec) unwindOverrun(fn string) {
	if strings.HasPrefix(ex.unwindAs, "#cut") {
		// the harness declared that longer runs of this loop are outside the claim (e.g. repeated random collisions)
		ex.H.noteOutside(fmt.Sprintf("paths needing more than %d iterations of a loop in %s are cut", ex.unwind, shortFn(fn)))
		ex.end("unwind-cut")
	}
	if ex.unwindAs != "" {
		ex.H.incObl()
		ex.H.recordViolationPC(ex, ex.unwindAs, fmt.Sprintf("loop in %s exceeds %d iterations", fn, ex.unwind))
		ex.end("unwind-violation")
	}
	ex.H.noteInconclusive(fmt.Sprintf("unwinding bound %d exceeded in %s", ex.unwind, fn))
	ex.end("unwind-bound")
}

// runDefersCatch runs the pending defers; returns a new panic raised by one of them.
func (t *Thread) runDefersCatch(fr *Frame) (pan *goPanic) {
	defer func() {
		if r := recover(); r != nil {
			if gp, ok := r.(*goPanic); ok {
				if gp.msg != "" && gp.val == nil {
					gp.val = &IfaceVal{T: types.Typ[types.String], V: StrConst(gp.msg)}
				}
				pan = gp
				return
			}
			panic(r)
		}
	}()
	t.panicStk = append(t.panicStk, fr)
	defer func() { t.panicStk = t.panicStk[:len(t.panicStk)-1] }()
	for len(fr.defers) > 0 {
		d := fr.defers[len(fr.defers)-1]
		fr.defers = fr.defers[:len(fr.defers)-1]
		t.callDeferred(d)
	}
	return nil
}

func (t *Thread) callDeferred(d *deferred) {
	switch {
	case d.bi != nil:
		t.builtin(nil, d.bi, d.args, nil)
	case d.method != nil:
		t.invoke(d.recv, d.method, d.args)
	default:
		t.callFunc(d.fn, d.args)
	}
}

func (t *Thread) invoke(recv *IfaceVal, m *types.Func, args []Value) Value {
	if recv == nil {
		rtPanic("invalid memory address or nil pointer dereference (method call on nil interface)")
	}
	fn := t.ex.prog.SSA.LookupMethod(recv.T, m.Pkg(), m.Name())
	if fn == nil {
		unsupportedf("no method %s on dynamic type %s", m.Name(), recv.T)
	}
	return t.call(fn, append([]Value{recv.V}, args...), nil)
}

func (t *Thread) runBlock(fr *Frame, blk *ssa.BasicBlock, prev *ssa.BasicBlock) *ssa.BasicBlock {
	ex := t.ex
	// phis first (parallel assignment)
	nphi := 0
	var phiVals []Value
	for _, in := range blk.Instrs {
		phi, ok := in.(*ssa.Phi)
		if !ok {
			break
		}
		nphi++
		idx := -1
		for i, p := range blk.Preds {
			if p == prev {
				idx = i
				break
			}
		}
		if idx < 0 {
			panic("engine: phi without matching predecessor")
		}
		phiVals = append(phiVals, t.get(fr, phi.Edges[idx]))
	}
	for i := 0; i < nphi; i++ {
		fr.env[blk.Instrs[i].(*ssa.Phi)] = phiVals[i]
	}
	for _, in := range blk.Instrs[nphi:] {
		ex.instrs++
		if ex.instrs > ex.H.Opt.MaxInstrs {
			ex.H.noteInconclusive("instruction budget exceeded")
			ex.end("instr-bound")
		}
		switch i := in.(type) {
		case *ssa.Alloc:
			fr.env[i] = newCell(i.Type().(*types.Pointer).Elem())
		case *ssa.BinOp:
			fr.env[i] = t.binop(i.Op, t.get(fr, i.X), t.get(fr, i.Y), i.X.Type(), i.Y.Type())
		case *ssa.UnOp:
			fr.env[i] = t.unop(fr, i)
		case *ssa.Call:
			fr.env[i] = t.callCommon(fr, &i.Call, i)
		case *ssa.ChangeInterface:
			fr.env[i] = t.get(fr, i.X)
		case *ssa.ChangeType:
			fr.env[i] = t.get(fr, i.X)
		case *ssa.Convert:
			fr.env[i] = t.convert(t.get(fr, i.X), i.X.Type(), i.Type())
		case *ssa.Extract:
			fr.env[i] = t.get(fr, i.Tuple).(Tuple)[i.Index]
		case *ssa.Field:
			fr.env[i] = t.get(fr, i.X).(*StructVal).F[i.Field]
		case *ssa.FieldAddr:
			p := t.get(fr, i.X).(*Cell)
			if p == nil {
				rtPanic("invalid memory address or nil pointer dereference")
			}
			fr.env[i] = p.Sub[i.Field]
		case *ssa.Index:
			fr.env[i] = t.indexValue(t.get(fr, i.X), t.get(fr, i.Index).(*Term), i.Index.Type())
		case *ssa.IndexAddr:
			fr.env[i] = t.indexAddr(t.get(fr, i.X), t.get(fr, i.Index).(*Term), i.Index.Type())
		case *ssa.Lookup:
			fr.env[i] = t.lookup(i, t.get(fr, i.X), t.get(fr, i.Index))
		case *ssa.MakeChan:
			n := t.concreteInt(t.get(fr, i.Size).(*Term), "chan size")
			fr.env[i] = ex.newChan(i.Type().Underlying().(*types.Chan).Elem(), n)
		case *ssa.MakeClosure:
			fv := &FuncVal{Fn: i.Fn.(*ssa.Function)}
			for _, b := range i.Bindings {
				fv.Env = append(fv.Env, t.get(fr, b))
			}
			fr.env[i] = fv
		case *ssa.MakeInterface:
			fr.env[i] = &IfaceVal{T: i.X.Type(), V: t.get(fr, i.X)}
		case *ssa.MakeMap:
			mt := i.Type().Underlying().(*types.Map)
			ex.objN++
			fr.env[i] = &MapObj{KT: mt.Key(), VT: mt.Elem(), ID: ex.objN}
		case *ssa.MakeSlice:
			n := t.concreteLen(t.get(fr, i.Len).(*Term), "make len")
			c := t.concreteLen(t.get(fr, i.Cap).(*Term), "make cap")
			if n > c {
				rtPanic("makeslice: cap out of range")
			}
			et := i.Type().Underlying().(*types.Slice).Elem()
			fr.env[i] = &SliceVal{Arr: newArrayCell(et, c), Off: 0, Len: n, Cap: c}
		case *ssa.MapUpdate:
			m := t.get(fr, i.Map).(*MapObj)
			t.mapUpdate(m, t.get(fr, i.Key), t.get(fr, i.Value))
		case *ssa.Range:
			x := t.get(fr, i.X)
			switch v := x.(type) {
			case *MapObj:
				fr.env[i] = &RangeIter{M: v}
			case *StrVal:
				fr.env[i] = &RangeIter{S: v}
			default:
				unsupportedf("range over %T", x)
			}
		case *ssa.Next:
			fr.env[i] = t.next(i, t.get(fr, i.Iter).(*RangeIter))
		case *ssa.Slice:
			fr.env[i] = t.slice(fr, i)
		case *ssa.Store:
			p := t.get(fr, i.Addr).(*Cell)
			if p == nil {
				rtPanic("invalid memory address or nil pointer dereference")
			}
			p.Store(t.get(fr, i.Val))
		case *ssa.TypeAssert:
			fr.env[i] = t.typeAssert(i, t.get(fr, i.X))
		case *ssa.Select:
			fr.env[i] = t.selectInstr(fr, i)
		case *ssa.Send:
			ch := t.get(fr, i.Chan).(*ChanObj)
			if ch == nil {
				t.block(func() bool { return false })
			}
			t.selectOp([]selCase{{ch: ch, send: true, val: t.get(fr, i.X)}}, false)
		case *ssa.Go:
			t.goInstr(fr, i)
		case *ssa.Defer:
			fr.defers = append(fr.defers, t.mkDeferred(fr, &i.Call))
		case *ssa.RunDefers:
			if p := t.runDefersCatch(fr); p != nil {
				panic(p)
			}
		case *ssa.Panic:
			v := t.get(fr, i.X)
			iv, _ := v.(*IfaceVal)
			gp := &goPanic{val: iv, msg: ""}
			gp.msg = "panic: " + t.ex.showPanicVal(iv)
			panic(gp)
		case *ssa.Return:
			switch len(i.Results) {
			case 0:
				fr.results = nil
			case 1:
				fr.results = t.get(fr, i.Results[0])
			default:
				tu := make(Tuple, len(i.Results))
				for k, r := range i.Results {
					tu[k] = t.get(fr, r)
				}
				fr.results = tu
			}
			return nil
		case *ssa.Jump:
			return blk.Succs[0]
		case *ssa.If:
			c := t.get(fr, i.Cond).(*Term)
			if ex.branch(c) {
				return blk.Succs[0]
			}
			return blk.Succs[1]
		case *ssa.DebugRef:
		case *ssa.SliceToArrayPointer:
			sv := t.get(fr, i.X).(*SliceVal)
			at := i.Type().(*types.Pointer).Elem().Underlying().(*types.Array)
			n := int(at.Len())
			if sv.Len < n {
				rtPanic("cannot convert slice to array pointer: length too short")
			}
			if sv.Arr == nil {
				fr.env[i] = (*Cell)(nil)
			} else {
				c := &Cell{T: at, N: n, Sub: make([]*Cell, n)}
				for k := 0; k < n; k++ {
					c.Sub[k] = sv.Arr.Elem(sv.Off + k)
				}
				fr.env[i] = c
			}
		default:
			unsupportedf("instruction %T in %s", in, fr.fn)
		}
	}
	panic("engine: block without terminator")
}

func (ex *Exec) showPanicVal(iv *IfaceVal) string {
	if iv == nil {
		return "nil"
	}
	switch v := iv.V.(type) {
	case *StrVal:
		return v.Show()
	case *Cell:
		// error types: try Error string field
		if v != nil && len(v.Sub) > 0 {
			if s, ok := v.Sub[0].V.(*StrVal); ok {
				return s.Show()
			}
		}
	}
	return fmt.Sprintf("value of type %s", iv.T)
}

func (t *Thread) concreteInt(x *Term, what string) int {
	if x.IsConst() {
		return int(x.SInt())
	}
	return int(int64(t.ex.concretize(x, what)))
}

func (t *Thread) concreteLen(x *Term, what string) int {
	if !x.IsConst() {
		// must be non-negative and small
		if t.ex.branch(BVCmp(OpSLT, x, MkBV(0, x.W))) {
			rtPanic("makeslice: len out of range")
		}
		if t.ex.branch(BVCmp(OpSLT, MkBV(uint64(t.ex.H.Opt.MaxAlloc), x.W), x)) {
			t.ex.H.noteOutside("allocation larger than " + fmt.Sprint(t.ex.H.Opt.MaxAlloc) + " elements (" + what + ")")
			t.ex.end("alloc-bound")
		}
	}
	n := t.concreteInt(x, what)
	if n < 0 {
		rtPanic("makeslice: len out of range")
	}
	if n > 1<<24 {
		unsupportedf("allocation of %d elements", n)
	}
	return n
}

func toWidth(x *Term, from types.Type, w int) *Term {
	if x.W == w {
		return x
	}
	if isSigned(from) {
		return SExt(x, w)
	}
	return ZExt(x, w)
}

func (t *Thread) binop(op token.Token, xv, yv Value, xt, yt types.Type) Value {
	switch x := xv.(type) {
	case *Term:
		y, ok := yv.(*Term)
		if !ok {
			unsupportedf("binop %s on %T,%T", op, xv, yv)
		}
		if x.W == WBool {
			switch op {
			case token.EQL:
				return Eq(x, y)
			case token.NEQ:
				return Not(Eq(x, y))
			case token.AND, token.LAND:
				return And(x, y)
			case token.OR, token.LOR:
				return Or(x, y)
			}
			unsupportedf("bool binop %s", op)
		}
		if x.W == WReal {
			switch op {
			case token.ADD:
				return RBin(OpRAdd, x, y)
			case token.SUB:
				return RBin(OpRSub, x, y)
			case token.MUL:
				return RBin(OpRMul, x, y)
			case token.QUO:
				return RBin(OpRDiv, x, y)
			case token.EQL:
				return Eq(x, y)
			case token.NEQ:
				return Not(Eq(x, y))
			case token.LSS:
				return RCmp(OpRLT, x, y)
			case token.LEQ:
				return RCmp(OpRLE, x, y)
			case token.GTR:
				return RCmp(OpRLT, y, x)
			case token.GEQ:
				return RCmp(OpRLE, y, x)
			}
			unsupportedf("float binop %s", op)
		}
		signed := isSigned(xt)
		switch op {
		case token.SHL, token.SHR:
			// shift count may have a different width
			var sh *Term
			var over *Term
			if y.W <= x.W {
				sh = ZExt(y, x.W)
				over = BVCmp(OpULE, MkBV(uint64(x.W), x.W), sh)
			} else {
				over = BVCmp(OpULE, MkBV(uint64(x.W), y.W), y)
				sh = Extract(y, x.W-1, 0)
			}
			if isSigned(yt) && !y.IsConst() {
				if t.ex.branch(BVCmp(OpSLT, y, MkBV(0, y.W))) {
					rtPanic("negative shift amount")
				}
			}
			if op == token.SHL {
				return Ite(over, MkBV(0, x.W), BVBin(OpShl, x, sh))
			}
			if signed {
				return Ite(over, BVBin(OpAShr, x, MkBV(uint64(x.W-1), x.W)), BVBin(OpAShr, x, sh))
			}
			return Ite(over, MkBV(0, x.W), BVBin(OpLShr, x, sh))
		}
		if x.W != y.W {
			unsupportedf("binop %s width mismatch %d/%d", op, x.W, y.W)
		}
		switch op {
		case token.ADD:
			return BVBin(OpAdd, x, y)
		case token.SUB:
			return BVBin(OpSub, x, y)
		case token.MUL:
			return BVBin(OpMul, x, y)
		case token.QUO, token.REM:
			if t.ex.branch(Eq(y, MkBV(0, y.W))) {
				rtPanic("integer divide by zero")
			}
			if op == token.QUO {
				if signed {
					return BVBin(OpSDiv, x, y)
				}
				return BVBin(OpUDiv, x, y)
			}
			if signed {
				return BVBin(OpSRem, x, y)
			}
			return BVBin(OpURem, x, y)
		case token.AND:
			return BVBin(OpBAnd, x, y)
		case token.OR:
			return BVBin(OpBOr, x, y)
		case token.XOR:
			return BVBin(OpBXor, x, y)
		case token.AND_NOT:
			return BVBin(OpBAnd, x, BVNot(y))
		case token.EQL:
			return Eq(x, y)
		case token.NEQ:
			return Not(Eq(x, y))
		case token.LSS:
			if signed {
				return BVCmp(OpSLT, x, y)
			}
			return BVCmp(OpULT, x, y)
		case token.LEQ:
			if signed {
				return BVCmp(OpSLE, x, y)
			}
			return BVCmp(OpULE, x, y)
		case token.GTR:
			if signed {
				return BVCmp(OpSLT, y, x)
			}
			return BVCmp(OpULT, y, x)
		case token.GEQ:
			if signed {
				return BVCmp(OpSLE, y, x)
			}
			return BVCmp(OpULE, y, x)
		}
		unsupportedf("int binop %s", op)
	case *StrVal:
		y := yv.(*StrVal)
		switch op {
		case token.ADD:
			return &StrVal{B: append(append([]*Term{}, x.B...), y.B...)}
		case token.EQL:
			return eqValue(x, y, xt)
		case token.NEQ:
			return Not(eqValue(x, y, xt))
		case token.LSS:
			return strLess(x, y, false)
		case token.LEQ:
			return strLess(x, y, true)
		case token.GTR:
			return strLess(y, x, false)
		case token.GEQ:
			return strLess(y, x, true)
		}
		unsupportedf("string binop %s", op)
	}
	switch op {
	case token.EQL:
		return eqValue(xv, yv, xt)
	case token.NEQ:
		return Not(eqValue(xv, yv, xt))
	}
	unsupportedf("binop %s on %T", op, xv)
	return nil
}

func strLess(a, b *StrVal, orEq bool) *Term {
	// lexicographic by bytes
	n := len(a.B)
	if len(b.B) < n {
		n = len(b.B)
	}
	var res *Term
	if len(a.B) < len(b.B) || (orEq && len(a.B) == len(b.B)) {
		res = TTrue
	} else {
		res = TFalse
	}
	for i := n - 1; i >= 0; i-- {
		res = Ite(BVCmp(OpULT, a.B[i], b.B[i]), TTrue, Ite(BVCmp(OpULT, b.B[i], a.B[i]), TFalse, res))
	}
	return res
}

func (t *Thread) unop(fr *Frame, i *ssa.UnOp) Value {
	xv := t.get(fr, i.X)
	switch i.Op {
	case token.NOT:
		return Not(xv.(*Term))
	case token.SUB:
		x := xv.(*Term)
		if x.W == WReal {
			return RNeg(x)
		}
		return BVNeg(x)
	case token.XOR:
		return BVNot(xv.(*Term))
	case token.MUL:
		p := xv.(*Cell)
		if p == nil {
			rtPanic("invalid memory address or nil pointer dereference")
		}
		return p.Load()
	case token.ARROW:
		ch := xv.(*ChanObj)
		if ch == nil {
			t.block(func() bool { return false })
		}
		_, v, ok := t.selectOp([]selCase{{ch: ch}}, false)
		if i.CommaOk {
			return Tuple{v, MkBool(ok)}
		}
		return v
	}
	unsupportedf("unop %s", i.Op)
	return nil
}

func (t *Thread) convert(v Value, from, to types.Type) Value {
	fu, tu := from.Underlying(), to.Underlying()
	switch x := v.(type) {
	case *Term:
		if isInteger(tu) {
			w := typeWidth(tu)
			if x.W == WReal {
				if x.IsConst() {
					// truncation toward zero
					q := new(big.Int).Quo(x.Rat.Num(), x.Rat.Denom())
					return MkBV(q.Uint64(), w)
				}
				unsupportedf("float to int conversion of a symbolic value")
			}
			if w <= x.W {
				return Extract(x, w-1, 0)
			}
			return toWidth(x, from, w)
		}
		if isFloat(tu) {
			if x.W == WReal {
				return x
			}
			return BV2Real(x, isSigned(from))
		}
		if isString(tu) {
			// string(rune)
			if x.IsConst() {
				return StrConst(string(rune(x.SInt())))
			}
			unsupportedf("string(symbolic rune)")
		}
		if _, ok := tu.(*types.Pointer); ok {
			unsupportedf("integer to pointer conversion")
		}
	case *StrVal:
		if sl, ok := tu.(*types.Slice); ok {
			et := sl.Elem().Underlying().(*types.Basic)
			if et.Kind() == types.Byte || et.Kind() == types.Uint8 {
				arr := newArrayCell(sl.Elem(), len(x.B))
				for k, b := range x.B {
					arr.Elem(k).V = b
				}
				return &SliceVal{Arr: arr, Off: 0, Len: len(x.B), Cap: len(x.B)}
			}
			// []rune: ASCII only
			var rs []rune
			for k := 0; k < len(x.B); {
				b := x.B[k]
				if !b.IsConst() {
					unsupportedf("[]rune of symbolic string")
				}
				if b.BV < 0x80 {
					rs = append(rs, rune(b.BV))
					k++
					continue
				}
				r, size, ok := decodeConstRune(x.B[k:])
				if !ok {
					unsupportedf("[]rune of symbolic string")
				}
				rs = append(rs, r)
				k += size
			}
			arr := newArrayCell(sl.Elem(), len(rs))
			for k, r := range rs {
				arr.Elem(k).V = MkBV(uint64(uint32(r)), 32)
			}
			return &SliceVal{Arr: arr, Off: 0, Len: len(rs), Cap: len(rs)}
		}
		if isString(tu) {
			return x
		}
	case *SliceVal:
		if isString(tu) {
			sl := fu.(*types.Slice)
			if typeWidth(sl.Elem()) == 8 {
				out := &StrVal{B: make([]*Term, x.Len)}
				for k := 0; k < x.Len; k++ {
					out.B[k] = x.Arr.Elem(x.Off + k).V.(*Term)
				}
				return out
			}
			// string([]rune): constant runes are encoded as the runtime does (invalid rune -> U+FFFD)
			var buf []byte
			for k := 0; k < x.Len; k++ {
				r, ok := x.Arr.Elem(x.Off + k).V.(*Term)
				if !ok || !r.IsConst() {
					unsupportedf("string([]rune) of symbolic runes")
				}
				buf = utf8.AppendRune(buf, rune(int32(uint32(r.BV))))
			}
			out := &StrVal{B: make([]*Term, len(buf))}
			for k, b := range buf {
				out.B[k] = MkBV(uint64(b), 8)
			}
			return out
		}
		if _, ok := tu.(*types.Slice); ok {
			return x
		}
	case *Cell:
		// pointer <-> unsafe.Pointer
		return x
	}
	unsupportedf("conversion %s -> %s (%T)", from, to, v)
	return nil
}

// indexValue indexes an array value or a string with a possibly symbolic index.
func (t *Thread) indexValue(x Value, idx *Term, it types.Type) Value {
	idx = toWidth(idx, it, 64)
	var elems []Value
	switch v := x.(type) {
	case *ArrayVal:
		elems = v.E
	case *StrVal:
		elems = make([]Value, len(v.B))
		for k, b := range v.B {
			elems[k] = b
		}
	default:
		unsupportedf("Index on %T", x)
	}
	n := len(elems)
	if idx.IsConst() {
		k := idx.SInt()
		if k < 0 || k >= int64(n) {
			rtPanic(fmt.Sprintf("index out of range [%d] with length %d", k, n))
		}
		return elems[k]
	}
	if !t.ex.branch(BVCmp(OpULT, idx, MkBV(uint64(n), 64))) {
		rtPanic(fmt.Sprintf("index out of range [symbolic] with length %d", n))
	}
	// ite chain for scalar elements
	if n > 0 {
		if _, ok := elems[0].(*Term); ok {
			res := elems[n-1].(*Term)
			for k := n - 2; k >= 0; k-- {
				res = Ite(Eq(idx, MkBV(uint64(k), 64)), elems[k].(*Term), res)
			}
			return res
		}
	}
	k := t.ex.concretize(idx, "index")
	return elems[k]
}

func (t *Thread) indexAddr(x Value, idx *Term, it types.Type) Value {
	idx = toWidth(idx, it, 64)
	var arr *Cell
	off, n := 0, 0
	switch v := x.(type) {
	case *SliceVal:
		arr, off, n = v.Arr, v.Off, v.Len
	case *Cell:
		if v == nil {
			rtPanic("invalid memory address or nil pointer dereference")
		}
		arr, off, n = v, 0, v.N
	default:
		unsupportedf("IndexAddr on %T", x)
	}
	if idx.IsConst() {
		k := idx.SInt()
		if k < 0 || k >= int64(n) {
			rtPanic(fmt.Sprintf("index out of range [%d] with length %d", k, n))
		}
		return arr.Elem(off + int(k))
	}
	if !t.ex.branch(BVCmp(OpULT, idx, MkBV(uint64(n), 64))) {
		rtPanic(fmt.Sprintf("index out of range [symbolic] with length %d", n))
	}
	k := t.ex.concretize(idx, "index")
	return arr.Elem(off + int(k))
}

func (t *Thread) slice(fr *Frame, i *ssa.Slice) Value {
	x := t.get(fr, i.X)
	getB := func(v ssa.Value) *Term {
		if v == nil {
			return nil
		}
		return toWidth(t.get(fr, v).(*Term), v.Type(), 64)
	}
	lo, hi, mx := getB(i.Low), getB(i.High), getB(i.Max)
	conc := func(b *Term, def int, what string) int {
		if b == nil {
			return def
		}
		if b.IsConst() {
			return int(b.SInt())
		}
		return -1 << 40 // symbolic marker
	}
	switch v := x.(type) {
	case *StrVal:
		l, h := t.sliceBounds(lo, hi, nil, len(v.B), len(v.B))
		_ = conc
		return &StrVal{B: v.B[l:h]}
	case *SliceVal:
		l, h, m := t.sliceBounds3(lo, hi, mx, v.Len, v.Cap)
		if v.Arr == nil {
			return &SliceVal{}
		}
		return &SliceVal{Arr: v.Arr, Off: v.Off + l, Len: h - l, Cap: m - l}
	case *Cell:
		if v == nil {
			rtPanic("invalid memory address or nil pointer dereference")
		}
		l, h, m := t.sliceBounds3(lo, hi, mx, v.N, v.N)
		return &SliceVal{Arr: v, Off: l, Len: h - l, Cap: m - l}
	}
	unsupportedf("Slice on %T", x)
	return nil
}

func (t *Thread) sliceBounds(lo, hi, mx *Term, length, capacity int) (int, int) {
	l, h, _ := t.sliceBounds3(lo, hi, mx, length, capacity)
	return l, h
}

// sliceBounds3 checks 0 <= lo <= hi <= max <= cap (hi defaults to len) and concretizes.
func (t *Thread) sliceBounds3(lo, hi, mx *Term, length, capacity int) (int, int, int) {
	ex := t.ex
	c64 := func(n int) *Term { return MkBV(uint64(n), 64) }
	if lo == nil {
		lo = c64(0)
	}
	if hi == nil {
		hi = c64(length)
	}
	if mx == nil {
		mx = c64(capacity)
	}
	ok := And(BVCmp(OpSLE, c64(0), lo), BVCmp(OpSLE, lo, hi), BVCmp(OpSLE, hi, mx), BVCmp(OpSLE, mx, c64(capacity)))
	if !ex.branch(ok) {
		rtPanic(fmt.Sprintf("slice bounds out of range (len %d cap %d)", length, capacity))
	}
	l := t.concreteInt(lo, "slice low")
	h := t.concreteInt(hi, "slice high")
	m := t.concreteInt(mx, "slice max")
	return l, h, m
}

func (t *Thread) typeAssert(i *ssa.TypeAssert, x Value) Value {
	iv, _ := x.(*IfaceVal)
	ok := false
	var res Value
	if _, isIface := i.AssertedType.Underlying().(*types.Interface); isIface {
		if iv != nil {
			ok = types.Implements(iv.T, i.AssertedType.Underlying().(*types.Interface))
			if !ok {
				// types.Implements is strict about pointer receivers; fall back to method set check
				ok = t.ex.prog.implements(iv.T, i.AssertedType.Underlying().(*types.Interface))
			}
		}
		if ok {
			res = iv
		} else {
			res = (*IfaceVal)(nil)
		}
	} else {
		if iv != nil && types.Identical(iv.T, i.AssertedType) {
			ok = true
			res = iv.V
		} else {
			res = zeroValue(i.AssertedType)
		}
	}
	if i.CommaOk {
		return Tuple{res, MkBool(ok)}
	}
	if !ok {
		have := "nil"
		if iv != nil {
			have = iv.T.String()
		}
		rtPanic(fmt.Sprintf("interface conversion: interface is %s, not %s", have, i.AssertedType))
	}
	return res
}

func (t *Thread) selectInstr(fr *Frame, i *ssa.Select) Value {
	cases := make([]selCase, len(i.States))
	for k, st := range i.States {
		ch, _ := t.get(fr, st.Chan).(*ChanObj)
		cases[k] = selCase{ch: ch, send: st.Dir == types.SendOnly}
		if st.Send != nil {
			cases[k].val = t.get(fr, st.Send)
		}
	}
	idx, v, ok := t.selectOp(cases, !i.Blocking)
	res := Tuple{MkBV(uint64(int64(idx)), 64), MkBool(ok)}
	for k, st := range i.States {
		if st.Dir == types.RecvOnly {
			if k == idx && v != nil {
				res = append(res, v)
			} else {
				res = append(res, zeroValue(st.Chan.Type().Underlying().(*types.Chan).Elem()))
			}
		}
	}
	return res
}

func (t *Thread) mkDeferred(fr *Frame, c *ssa.CallCommon) *deferred {
	d := &deferred{}
	for _, a := range c.Args {
		d.args = append(d.args, t.get(fr, a))
	}
	if c.IsInvoke() {
		d.recv, _ = t.get(fr, c.Value).(*IfaceVal)
		d.method = c.Method
		return d
	}
	switch f := c.Value.(type) {
	case *ssa.Builtin:
		d.bi = f
	default:
		d.fn, _ = t.get(fr, c.Value).(*FuncVal)
		if d.fn != nil && d.fn.Bi != nil {
			d.bi, d.fn = d.fn.Bi, nil
		}
	}
	return d
}

func (t *Thread) goInstr(fr *Frame, i *ssa.Go) {
	d := t.mkDeferred(fr, &i.Call)
	ex := t.ex
	t.visible()
	var fv *FuncVal
	args := d.args
	what := ""
	switch {
	case d.method != nil:
		if d.recv == nil {
			rtPanic("go of method on nil interface")
		}
		fn := ex.prog.SSA.LookupMethod(d.recv.T, d.method.Pkg(), d.method.Name())
		fv = &FuncVal{Fn: fn}
		args = append([]Value{d.recv.V}, args...)
	case d.bi != nil:
		unsupportedf("go builtin")
	default:
		fv = d.fn
	}
	if fv != nil && fv.Fn != nil {
		what = fv.Fn.String()
	}
	ex.newThread(fv, args, what)
}

func (t *Thread) callCommon(fr *Frame, c *ssa.CallCommon, instr *ssa.Call) Value {
	args := make([]Value, 0, len(c.Args)+1)
	if c.IsInvoke() {
		recv, _ := t.get(fr, c.Value).(*IfaceVal)
		for _, a := range c.Args {
			args = append(args, t.get(fr, a))
		}
		return t.invoke(recv, c.Method, args)
	}
	for _, a := range c.Args {
		args = append(args, t.get(fr, a))
	}
	switch f := c.Value.(type) {
	case *ssa.Builtin:
		return t.builtin(fr, f, args, c)
	case *ssa.Function:
		return t.call(f, args, nil)
	}
	fv, _ := t.get(fr, c.Value).(*FuncVal)
	if fv == nil {
		rtPanic("invalid memory address or nil pointer dereference (call of nil func)")
	}
	if fv.Bi != nil {
		return t.builtin(fr, fv.Bi, args, c)
	}
	return t.call(fv.Fn, args, fv.Env)
}

func (t *Thread) builtin(fr *Frame, b *ssa.Builtin, args []Value, c *ssa.CallCommon) Value {
	switch b.Name() {
	case "len":
		switch v := args[0].(type) {
		case *StrVal:
			return MkBV(uint64(len(v.B)), 64)
		case *SliceVal:
			return MkBV(uint64(v.Len), 64)
		case *MapObj:
			return mapLen(v)
		case *ChanObj:
			if v == nil {
				return MkBV(0, 64)
			}
			return MkBV(uint64(len(v.Buf)), 64)
		case *ArrayVal:
			return MkBV(uint64(len(v.E)), 64)
		case *Cell:
			return MkBV(uint64(v.N), 64)
		}
	case "cap":
		switch v := args[0].(type) {
		case *SliceVal:
			return MkBV(uint64(v.Cap), 64)
		case *ChanObj:
			if v == nil {
				return MkBV(0, 64)
			}
			return MkBV(uint64(v.Cap), 64)
		case *ArrayVal:
			return MkBV(uint64(len(v.E)), 64)
		case *Cell:
			return MkBV(uint64(v.N), 64)
		}
	case "append":
		s := args[0].(*SliceVal)
		var add []Value
		var et types.Type
		switch a := args[1].(type) {
		case *SliceVal:
			for k := 0; k < a.Len; k++ {
				add = append(add, a.Arr.Elem(a.Off+k).Load())
			}
		case *StrVal:
			for _, bt := range a.B {
				add = append(add, bt)
			}
		}
		if len(add) == 0 {
			return s
		}
		if s.Arr != nil && s.Len+len(add) <= s.Cap {
			for k, v := range add {
				s.Arr.Elem(s.Off + s.Len + k).Store(v)
			}
			return &SliceVal{Arr: s.Arr, Off: s.Off, Len: s.Len + len(add), Cap: s.Cap}
		}
		if s.Arr != nil {
			et = s.Arr.T.Underlying().(*types.Array).Elem()
		} else if c != nil {
			et = c.Args[0].Type().Underlying().(*types.Slice).Elem()
		} else if a, ok := args[1].(*SliceVal); ok && a.Arr != nil {
			et = a.Arr.T.Underlying().(*types.Array).Elem()
		} else {
			et = types.Typ[types.Byte]
		}
		need := s.Len + len(add)
		nc := need
		if s.Cap*2 > nc {
			nc = s.Cap * 2
		}
		arr := newArrayCell(et, nc)
		for k := 0; k < s.Len; k++ {
			arr.Elem(k).Store(s.Arr.Elem(s.Off + k).Load())
		}
		for k, v := range add {
			arr.Elem(s.Len + k).Store(v)
		}
		return &SliceVal{Arr: arr, Off: 0, Len: need, Cap: nc}
	case "copy":
		dst := args[0].(*SliceVal)
		var src []Value
		switch a := args[1].(type) {
		case *SliceVal:
			for k := 0; k < a.Len; k++ {
				src = append(src, a.Arr.Elem(a.Off+k).Load())
			}
		case *StrVal:
			for _, bt := range a.B {
				src = append(src, bt)
			}
		}
		n := len(src)
		if dst.Len < n {
			n = dst.Len
		}
		for k := 0; k < n; k++ {
			dst.Arr.Elem(dst.Off + k).Store(src[k])
		}
		return MkBV(uint64(n), 64)
	case "delete":
		m := args[0].(*MapObj)
		if m != nil {
			for _, e := range m.E {
				e.P = And(e.P, Not(eqValue(e.K, args[1], m.KT)))
			}
		}
		return nil
	case "close":
		ch, _ := args[0].(*ChanObj)
		t.closeChan(ch)
		return nil
	case "print", "println":
		return nil
	case "recover":
		if len(t.panicStk) > 0 {
			top := t.panicStk[len(t.panicStk)-1]
			if top.panicking != nil {
				v := top.panicking.val
				top.panicking = nil
				if v == nil {
					return (*IfaceVal)(nil)
				}
				return v
			}
		}
		return (*IfaceVal)(nil)
	case "SliceData":
		// unsafe.SliceData: a pointer that remembers the slice (only unsafe.String consumes it)
		sv := args[0].(*SliceVal)
		if sv.Arr == nil {
			return (*Cell)(nil)
		}
		return &Cell{T: sv.Arr.T.Underlying().(*types.Array).Elem(), Tag: &sliceData{sv}}
	case "String":
		// unsafe.String(ptr, len)
		n := t.concreteInt(args[1].(*Term), "unsafe.String length")
		c, _ := args[0].(*Cell)
		if c == nil {
			if n == 0 {
				return &StrVal{}
			}
			rtPanic("unsafe.String: ptr is nil and len is not zero")
		}
		out := &StrVal{B: make([]*Term, n)}
		if sd, ok := c.Tag.(*sliceData); ok && n <= sd.s.Len {
			for k := 0; k < n; k++ {
				out.B[k] = sd.s.Arr.Elem(sd.s.Off + k).V.(*Term)
			}
			return out
		}
		if c.Up != nil && c.UpIdx+n <= c.Up.N {
			// &b[i] of a byte array
			for k := 0; k < n; k++ {
				out.B[k] = c.Up.Elem(c.UpIdx + k).V.(*Term)
			}
			return out
		}
		unsupportedf("unsafe.String on a pointer that is not the address of a byte-array element")
		return nil
	case "ssa:wrapnilchk":
		if c, ok := args[0].(*Cell); ok && c == nil {
			rtPanic("value method called using nil pointer")
		}
		return args[0]
	case "min", "max":
		res := args[0].(*Term)
		signed := c != nil && isSigned(c.Args[0].Type())
		for _, a := range args[1:] {
			y := a.(*Term)
			var lt *Term
			if res.W == WReal {
				lt = RCmp(OpRLT, y, res)
			} else if signed {
				lt = BVCmp(OpSLT, y, res)
			} else {
				lt = BVCmp(OpULT, y, res)
			}
			if b.Name() == "max" {
				lt = Not(Or(lt, Eq(y, res)))
			}
			res = Ite(lt, y, res)
		}
		return res
	case "clear":
		switch v := args[0].(type) {
		case *MapObj:
			if v != nil {
				v.E = nil
			}
		case *SliceVal:
			for k := 0; k < v.Len; k++ {
				c := v.Arr.Elem(v.Off + k)
				c.Store(zeroValue(c.T))
			}
		}
		return nil
	}
	unsupportedf("builtin %s on %T", b.Name(), args[0])
	return nil
}

// ---------- maps ----------

func mapLen(m *MapObj) *Term {
	if m == nil {
		return MkBV(0, 64)
	}
	res := MkBV(0, 64)
	for _, e := range m.E {
		res = BVBin(OpAdd, res, Ite(e.P, MkBV(1, 64), MkBV(0, 64)))
	}
	return res
}

func (t *Thread) mapUpdate(m *MapObj, k, v Value) {
	if m == nil {
		panic(&goPanic{msg: "assignment to entry in nil map"})
	}
	var matches []*Term
	for _, e := range m.E {
		mt := And(e.P, eqValue(e.K, k, m.KT))
		if mt.IsConst() && !mt.B {
			continue
		}
		if mt.IsConst() && mt.B {
			e.V = v
			return
		}
		nv, ok := iteValue(mt, v, e.V)
		if ok {
			e.V = nv
			matches = append(matches, mt)
			continue
		}
		if t.ex.branch(mt) {
			e.V = v
			return
		}
	}
	m.E = append(m.E, &MapEntry{K: k, P: Not(Or(matches...)), V: v})
}

func (t *Thread) mapLookup(m *MapObj, k Value, vt types.Type) (Value, *Term) {
	zero := zeroValue(vt)
	if m == nil {
		return zero, TFalse
	}
	var res Value = zero
	found := TFalse
	// go from last to first building an ite chain when possible; else fork
	type cand struct {
		c *Term
		v Value
	}
	var cands []cand
	for _, e := range m.E {
		mt := And(e.P, eqValue(e.K, k, m.KT))
		if mt.IsConst() && !mt.B {
			continue
		}
		cands = append(cands, cand{mt, e.V})
		if mt.IsConst() && mt.B {
			break
		}
	}
	mergeable := true
	for i := len(cands) - 1; i >= 0; i-- {
		nv, ok := iteValue(cands[i].c, cands[i].v, res)
		if !ok {
			mergeable = false
			break
		}
		res = nv
		found = Or(cands[i].c, found)
	}
	if mergeable {
		return res, found
	}
	for _, c := range cands {
		if t.ex.branch(c.c) {
			return c.v, TTrue
		}
	}
	return zero, TFalse
}

func (t *Thread) lookup(i *ssa.Lookup, x, k Value) Value {
	if s, ok := x.(*StrVal); ok {
		return t.indexValue(s, k.(*Term), i.Index.Type())
	}
	m := x.(*MapObj)
	vt := i.X.Type().Underlying().(*types.Map).Elem()
	v, ok := t.mapLookup(m, k, vt)
	if i.CommaOk {
		return Tuple{v, ok}
	}
	return v
}

func (t *Thread) next(i *ssa.Next, it *RangeIter) Value {
	if i.IsString {
		if it.Idx >= len(it.S.B) {
			return Tuple{TFalse, MkBV(0, 64), MkBV(0, 32)}
		}
		b := it.S.B[it.Idx]
		if !b.IsConst() {
			// ASCII assumption for symbolic bytes in range-over-string
			t.ex.assume(BVCmp(OpULT, b, MkBV(0x80, 8)))
			t.ex.H.noteOutside("range over string: symbolic bytes assumed ASCII")
		} else if b.BV >= 0x80 {
			// constant non-ASCII bytes: decoded exactly as the runtime does (invalid sequences
			// yield U+FFFD, width 1); a symbolic byte inside the sequence is not modelled
			r, size, ok := decodeConstRune(it.S.B[it.Idx:])
			if !ok {
				unsupportedf("range over non-ASCII string with symbolic continuation bytes")
			}
			k := it.Idx
			it.Idx += size
			return Tuple{TTrue, MkBV(uint64(k), 64), MkBV(uint64(uint32(r)), 32)}
		}
		k := it.Idx
		it.Idx++
		return Tuple{TTrue, MkBV(uint64(k), 64), ZExt(b, 32)}
	}
	m := it.M
	mt := i.Iter.(*ssa.Range).X.Type().Underlying().(*types.Map)
	for m != nil && it.Idx < len(m.E) {
		e := m.E[it.Idx]
		it.Idx++
		if t.ex.branch(e.P) {
			return Tuple{TTrue, e.K, e.V}
		}
	}
	return Tuple{TFalse, zeroValue(mt.Key()), zeroValue(mt.Elem())}
}

// decodeConstRune decodes the first rune of a string whose leading bytes are constants, with the
// runtime's own rules (utf8.DecodeRune). ok is false when a byte the decoder has to look at is symbolic.
func decodeConstRune(bs []*Term) (rune, int, bool) {
	var buf []byte
	for k := 0; k < len(bs) && k < utf8.UTFMax; k++ {
		if !bs[k].IsConst() {
			break
		}
		buf = append(buf, byte(bs[k].BV))
	}
	if len(buf) == 0 {
		return 0, 0, false
	}
	r, size := utf8.DecodeRune(buf)
	// a verdict that could change with the bytes we could not read is not a verdict
	if len(buf) < utf8.UTFMax && len(buf) < len(bs) && !utf8.FullRune(buf) {
		return 0, 0, false
	}
	return r, size, true
}

// ---------- program helpers ----------

func (p *Program) implements(T types.Type, iface *types.Interface) bool {
	ms := p.SSA.MethodSets.MethodSet(T)
	for k := 0; k < iface.NumMethods(); k++ {
		m := iface.Method(k)
		if ms.Lookup(m.Pkg(), m.Name()) == nil {
			return false
		}
	}
	return true
}

func shortFn(name string) string {
	if i := strings.LastIndex(name, "/"); i >= 0 {
		return name[i+1:]
	}
	return name
}
