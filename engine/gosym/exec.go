package gosym

import (
	"fmt"
	"go/types"
	"os"
	"sort"
	"strings"

	"golang.org/x/tools/go/ssa"
)

// Dec is one recorded decision of a path.
type Dec struct {
	K    byte     // 'b' branch, 'c' choose, 'v' concretize
	V    uint64   // branch: 0/1, choose: index, concretize: value
	Excl []uint64 // concretize: values excluded before V was picked
	Pend bool     // concretize: value still to be picked by the solver
}

type pathEnd struct{ reason string }

type goPanic struct {
	val Value
	msg string
}

// InputRec is one nondeterministic input handed to the harness, in call order.
type InputRec struct {
	Kind  string  // byte bool u64 i64 int float bytes string choose
	Terms []*Term // value term(s)
	N     int     // concrete value for choose / lengths
}

// Violation is a failed obligation with a model.
type Violation struct {
	Harness   string        `json:"harness"`
	Name      string        `json:"assertion"`
	Msg       string        `json:"message"`
	Inputs    []interface{} `json:"inputs"`
	KnownTags []string      `json:"known_tags,omitempty"`
	Decisions int           `json:"decisions"`
	Where     string        `json:"where,omitempty"`
	Schedule  []string      `json:"schedule,omitempty"`
}

// PathResult summarises one explored path.
type PathResult struct {
	End       string
	Instrs    int
	Decisions int
}

type knownRec struct {
	tag  string
	cond *Term
}

// Exec is the state of one path execution.
type Exec struct {
	H        *HarnessRun
	prog     *Program
	solver   *Solver
	prefix   []Dec
	trace    []Dec
	pos      int
	pc       []*Term
	inputs   []InputRec
	knowns   []knownRec
	threads  []*Thread
	cur      *Thread
	yieldCh  chan *yieldEv
	dead     bool
	globals  map[*ssa.Global]*Cell
	initDone map[*ssa.Package]bool
	varN     int
	instrs   int
	unwind   int
	unwindAs string // assertion name for unwinding overrun ("" = inconclusive)
	unwindFn string // if set, the harness bound applies only to functions whose name contains it
	explore  bool   // schedule exploration
	preempt  int    // remaining pre-emptions
	timers   []*ChanObj
	blobs    map[string]blob
	redirect map[string]*ssa.Function
	dynRedirect map[string]*FuncVal
	objN     int
	endMsg   string
	selFork  bool
	funcs    map[string]bool
	clock    *Term
	strictClock bool
	notes    map[string]interface{}
	hashes   []hashRec
	pcKeys   map[[16]byte]bool
	sched    []string // pre-emptions taken on this path (thread, position, thread switched to)
	allMutexes []*mutexState
}

type hashRec struct {
	s *StrVal
	h *Term
}

// Thread is an engine thread (goroutine of the program under test).
type Thread struct {
	ID       int
	ex       *Exec
	wake     chan struct{}
	state    int // 0 ready 1 blocked 2 finished
	cond     func() bool
	fn       *FuncVal
	args     []Value
	panicStk []*Frame
	depth    int
	isMain   bool
	what     string
	where    string
	low      bool // low priority: runs only at a chosen pre-emption point or when nothing else can run
}

type yieldEv struct {
	t    *Thread
	kind int // 0 blocked, 1 finished, 2 yield(visible op), 3 pathEnd, 4 panic(unrecovered), 5 unsupported
	msg  string
	pan  *goPanic
}

func (ex *Exec) fresh(prefix string, w int) *Term {
	ex.varN++
	return MkVar(fmt.Sprintf("%s!%d", prefix, ex.varN), w)
}

func (ex *Exec) end(reason string) {
	panic(pathEnd{reason})
}

// ---------- decisions ----------

func (ex *Exec) check(extra *Term, model bool) (SatResult, *Model) {
	ts := make([]*Term, 0, len(ex.pc)+1)
	ts = append(ts, ex.pc...)
	if extra != nil {
		ts = append(ts, extra)
	}
	return ex.solver.Check(ts, model)
}

func (ex *Exec) addPC(t *Term) {
	if t.IsConst() {
		if !t.B {
			ex.end("infeasible")
		}
		return
	}
	ex.pushPC(t)
}

// pushPC appends a conjunct to the path condition and indexes it (and its conjuncts) by structure, so that a
// later branch on the same condition is decided without a solver call.
func (ex *Exec) pushPC(t *Term) {
	ex.pc = append(ex.pc, t)
	if ex.pcKeys == nil {
		ex.pcKeys = map[[16]byte]bool{}
	}
	var idx func(t *Term)
	idx = func(t *Term) {
		ex.pcKeys[t.Key()] = true
		if t.Op == OpAnd {
			for _, a := range t.Args {
				idx(a)
			}
		}
	}
	idx(t)
}

// known reports whether c (1) or its negation (-1) is syntactically part of the path condition.
func (ex *Exec) known(c *Term) int {
	if ex.pcKeys == nil {
		return 0
	}
	if ex.pcKeys[c.Key()] {
		return 1
	}
	if ex.pcKeys[Not(c).Key()] {
		return -1
	}
	return 0
}

// branch decides a condition, forking when both sides are feasible.
func (ex *Exec) branch(c *Term) bool {
	if c.W != WBool {
		panic("branch on non-bool")
	}
	if c.IsConst() {
		return c.B
	}
	if k := ex.known(c); k != 0 {
		// already part of the path condition syntactically: not a decision (a replay has the same path
		// condition at this point, so it takes the same shortcut)
		return k > 0
	}
	if ex.pos < len(ex.prefix) {
		d := ex.prefix[ex.pos]
		ex.pos++
		ex.trace = append(ex.trace, d)
		if d.V == 1 {
			ex.addPC(c)
			return true
		}
		ex.addPC(Not(c))
		return false
	}
	ex.pos++
	if len(ex.trace) > ex.H.Opt.MaxDecisions {
		ex.H.noteInconclusive("decision bound exceeded")
		ex.end("decision-bound")
	}
	r1, _ := ex.check(c, false)
	if r1 == Unsat {
		ex.trace = append(ex.trace, Dec{K: 'b', V: 0})
		ex.addPC(Not(c))
		return false
	}
	r2, _ := ex.check(Not(c), false)
	if r2 == Unsat {
		ex.trace = append(ex.trace, Dec{K: 'b', V: 1})
		ex.addPC(c)
		return true
	}
	if r1 == Unknown || r2 == Unknown {
		ex.H.incFU()
	}
	if traceCalls && ex.cur != nil {
		fmt.Fprintf(os.Stderr, "FORK in %s\n", ex.cur.where)
	}
	alt := append(append([]Dec{}, ex.trace...), Dec{K: 'b', V: 0})
	ex.H.push(alt)
	ex.trace = append(ex.trace, Dec{K: 'b', V: 1})
	ex.addPC(c)
	return true
}

// choose is an unconditioned n-way choice (every alternative is explored).
func (ex *Exec) choose(n int) int {
	if n <= 1 {
		return 0
	}
	if ex.pos < len(ex.prefix) {
		d := ex.prefix[ex.pos]
		ex.pos++
		ex.trace = append(ex.trace, d)
		if traceCalls {
			fmt.Fprintf(os.Stderr, "choose(%d) = %d\n", n, d.V)
		}
		return int(d.V)
	}
	ex.pos++
	if traceCalls {
		fmt.Fprintf(os.Stderr, "choose(%d) new\n", n)
	}
	for i := n - 1; i >= 1; i-- {
		alt := append(append([]Dec{}, ex.trace...), Dec{K: 'c', V: uint64(i)})
		ex.H.push(alt)
	}
	ex.trace = append(ex.trace, Dec{K: 'c', V: 0})
	return 0
}

// concretize enumerates the feasible values of t (bounded).
func (ex *Exec) concretize(t *Term, what string) uint64 {
	if t.IsConst() {
		return t.BV
	}
	var excl []uint64
	if ex.pos < len(ex.prefix) {
		d := ex.prefix[ex.pos]
		if !d.Pend {
			ex.pos++
			ex.trace = append(ex.trace, d)
			ex.addPC(Eq(t, MkBV(d.V, t.W)))
			return d.V
		}
		excl = d.Excl
	}
	ex.pos++
	if len(excl) >= ex.H.Opt.MaxConcretize {
		ex.H.noteInconclusive("concretization bound exceeded for " + what)
		ex.end("concretize-bound")
	}
	cs := make([]*Term, 0, len(excl))
	for _, v := range excl {
		cs = append(cs, Not(Eq(t, MkBV(v, t.W))))
	}
	r, m := ex.check(And(cs...), true)
	if r == Unsat {
		ex.end("infeasible")
	}
	if r == Unknown {
		ex.H.noteInconclusive("solver unknown while concretizing " + what)
		ex.end("unknown")
	}
	v := Eval(t, m)
	if !v.IsConst() {
		panic("concretize: non-constant model value")
	}
	nexcl := append(append([]uint64{}, excl...), v.BV)
	alt := append(append([]Dec{}, ex.trace...), Dec{K: 'v', Excl: nexcl, Pend: true})
	ex.H.push(alt)
	ex.trace = append(ex.trace, Dec{K: 'v', V: v.BV, Excl: excl})
	ex.addPC(Eq(t, MkBV(v.BV, t.W)))
	return v.BV
}

// ---------- obligations ----------

func (ex *Exec) knownDisj(name string) *Term {
	var ds []*Term
	for _, k := range ex.knowns {
		if ex.H.Run.isListedKnown(ex.H.Name, name, k.tag) {
			ds = append(ds, k.cond)
		}
	}
	return Or(ds...)
}

// obligation checks that cond holds on the current path; records a violation with a model otherwise.
func (ex *Exec) obligation(name string, cond *Term, msg string) {
	ex.H.incObl()
	q := Not(cond)
	if q.IsConst() && !q.B {
		ex.H.incDis()
		ex.H.sample(name, "holds (folded)")
		return
	}
	kd := ex.knownDisj(name)
	r, m := ex.check(And(q, Not(kd)), true)
	switch r {
	case Unsat:
		if !(kd.IsConst() && !kd.B) {
			r2, m2 := ex.check(q, true)
			if r2 == Sat {
				ex.H.recordKnown(ex, name, m2)
			} else if r2 == Unknown {
				ex.H.noteInconclusive("solver unknown on obligation " + name)
			}
		}
		ex.H.incDis()
		ex.H.sample(name, "unsat")
	case Sat:
		ex.H.recordViolation(ex, name, msg, m)
	default:
		ex.H.noteInconclusive("solver unknown on obligation " + name)
	}
	// continue under the assumption that it holds
	if !cond.IsConst() {
		r, _ := ex.check(cond, false)
		if r == Unsat {
			ex.end("assert-failed-always")
		}
		ex.pushPC(cond)
	} else if !cond.B {
		ex.end("assert-failed-always")
	}
}

func (ex *Exec) assume(c *Term) {
	if c.IsConst() {
		if !c.B {
			ex.end("assume-false")
		}
		return
	}
	r, _ := ex.check(c, false)
	if r == Unsat {
		ex.end("assume-false")
	}
	ex.pushPC(c)
}

// ---------- threads ----------

func (ex *Exec) newThread(fn *FuncVal, args []Value, what string) *Thread {
	t := &Thread{ID: len(ex.threads), ex: ex, wake: make(chan struct{}), fn: fn, args: args, what: what}
	ex.threads = append(ex.threads, t)
	go t.body()
	return t
}

func (t *Thread) body() {
	<-t.wake
	ev := &yieldEv{t: t, kind: 1}
	func() {
		defer func() {
			if r := recover(); r != nil {
				switch x := r.(type) {
				case pathEnd:
					ev.kind, ev.msg = 3, x.reason
				case *goPanic:
					ev.kind, ev.pan = 4, x
				case *unsupported:
					ev.kind, ev.msg = 5, x.msg+" (in "+shortFn(t.where)+")"
				default:
					ev.kind, ev.msg = 5, fmt.Sprintf("engine panic: %v\n%s", r, stackTrace())
				}
			}
		}()
		if t.ex.dead {
			panic(pathEnd{"dead"})
		}
		t.callFunc(t.fn, t.args)
	}()
	t.state = 2
	t.ex.yieldCh <- ev
}

// block parks the thread until cond() holds.
func (t *Thread) block(cond func() bool) {
	for !cond() {
		t.state = 1
		t.cond = cond
		t.ex.yieldCh <- &yieldEv{t: t, kind: 0}
		<-t.wake
		if t.ex.dead {
			panic(pathEnd{"dead"})
		}
		t.state = 0
	}
	t.cond = nil
}

// visible marks a scheduling point before a visible operation.
func (t *Thread) visible() {
	ex := t.ex
	if !ex.explore || ex.preempt <= 0 {
		return
	}
	others := 0
	for _, o := range ex.threads {
		if o != t && o.runnable() {
			others++
		}
	}
	if others == 0 {
		return
	}
	t.state = 0
	ex.yieldCh <- &yieldEv{t: t, kind: 2}
	<-t.wake
	if ex.dead {
		panic(pathEnd{"dead"})
	}
}

func (t *Thread) runnable() bool {
	switch t.state {
	case 0:
		return true
	case 1:
		return t.cond != nil && t.cond()
	}
	return false
}

// runPath executes the harness once under the current prefix. It returns the way the path ended.
func (ex *Exec) runPath(h *ssa.Function) (end string) {
	main := ex.newThread(&FuncVal{Fn: h}, nil, "main")
	main.isMain = true
	cur := main
	defer func() {
		// kill remaining threads
		ex.dead = true
		for _, t := range ex.threads {
			if t.state != 2 {
				t.wake <- struct{}{}
				<-ex.yieldCh
			}
		}
	}()
	for {
		ex.cur = cur
		cur.wake <- struct{}{}
		ev := <-ex.yieldCh
		switch ev.kind {
		case 3:
			return ev.msg
		case 5:
			ex.H.noteUnsupported(ev.msg)
			return "unsupported"
		case 4:
			ex.H.recordPanic(ex, ev.pan, ev.t)
			return "panic"
		case 1:
			if ev.t.isMain && !ex.H.Opt.RunAfterMain {
				return "done"
			}
		}
		// pick next
		var cands []*Thread
		for _, t := range ex.threads {
			if t.runnable() {
				cands = append(cands, t)
			}
		}
		if len(cands) == 0 {
			// time passes: fire the oldest pending timer
			fired := false
			if tm := ex.nextTimer(); tm != nil {
				ex.fireTimer(tm)
				fired = true
			}
			if fired {
				for _, t := range ex.threads {
					if t.runnable() {
						cands = append(cands, t)
					}
				}
			}
		}
		if len(cands) == 0 {
			if main.state == 2 {
				return "done"
			}
			ex.H.recordDeadlock(ex)
			return "deadlock"
		}
		next := cands[0]
		for _, c := range cands {
			if !c.low {
				next = c
				break
			}
		}
		if ev.kind == 2 {
			// pre-emption point: stay or switch
			if ex.explore && ex.preempt > 0 && len(cands) > 1 {
				// order: current first
				sort.SliceStable(cands, func(i, j int) bool { return cands[i] == ev.t && cands[j] != ev.t })
				k := ex.schedChoose(len(cands))
				next = cands[k]
				if next != ev.t {
					ex.preempt--
					ex.sched = append(ex.sched, fmt.Sprintf("goroutine %d (%s) pre-empted before a synchronisation operation in %s; goroutine %d (%s) runs",
						ev.t.ID, shortFn(ev.t.what), shortFn(ev.t.where), next.ID, shortFn(next.what)))
				}
			} else {
				next = ev.t
			}
		}
		// when the running thread blocks or ends the lowest-numbered runnable thread continues
		// (deterministic); reorderings are explored through the budgeted pre-emption points only.
		cur = next
	}
}

func (ex *Exec) schedChoose(n int) int { return ex.choose(n) }

// ---------- channels ----------

type ChanObj struct {
	ID           int
	ET           types.Type
	Cap          int
	Buf          []Value
	Closed       bool
	recvq, sendq []*waiter
	timer        bool
	timerFired   bool
	timerStopped bool
	timerDur     *Term // requested duration (ns) of a timer channel
}

type selState struct {
	fired   bool
	caseIdx int
	val     Value
	ok      bool
	panicCl bool
}

type waiter struct {
	t   *Thread
	sel *selState
	idx int
	val Value
}

type selCase struct {
	ch   *ChanObj
	send bool
	val  Value
}

func liveWaiter(q *[]*waiter) *waiter {
	for len(*q) > 0 {
		w := (*q)[0]
		if w.sel.fired {
			*q = (*q)[1:]
			continue
		}
		return w
	}
	return nil
}

func (ex *Exec) newChan(et types.Type, capacity int) *ChanObj {
	ex.objN++
	return &ChanObj{ID: ex.objN, ET: et, Cap: capacity}
}

// nextTimer picks the timer that fires when time passes: the oldest armed timer somebody is waiting
// on; if nobody waits on any, the oldest armed timer (timers abandoned by their creator never matter).
func (ex *Exec) nextTimer() *ChanObj {
	var first *ChanObj
	for _, tm := range ex.timers {
		if tm.timerFired || tm.timerStopped {
			continue
		}
		if liveWaiter(&tm.recvq) != nil {
			return tm
		}
		if first == nil {
			first = tm
		}
	}
	return first
}

func (ex *Exec) fireTimer(ch *ChanObj) {
	if traceCalls {
		fmt.Fprintf(os.Stderr, "fire timer chan#%d (waiter=%v) of %d timers\n", ch.ID, liveWaiter(&ch.recvq) != nil, len(ex.timers))
	}
	ch.timerFired = true
	v := zeroValue(ch.ET)
	if w := liveWaiter(&ch.recvq); w != nil {
		w.sel.fired, w.sel.caseIdx, w.sel.val, w.sel.ok = true, w.idx, v, true
		return
	}
	ch.Buf = append(ch.Buf, v)
}

func (c selCase) ready() bool {
	ch := c.ch
	if ch == nil {
		return false
	}
	if c.send {
		return ch.Closed || liveWaiter(&ch.recvq) != nil || len(ch.Buf) < ch.Cap
	}
	return len(ch.Buf) > 0 || liveWaiter(&ch.sendq) != nil || ch.Closed
}

// selectOp implements select / send / receive. Returns (-1) for default.
func (t *Thread) selectOp(cases []selCase, hasDefault bool) (int, Value, bool) {
	ex := t.ex
	t.visible()
	var ready []int
	for i, c := range cases {
		if c.ready() {
			ready = append(ready, i)
		}
	}
	if len(ready) > 0 {
		k := 0
		if len(ready) > 1 && ex.selFork {
			k = ex.choose(len(ready))
		}
		i := ready[k]
		c := cases[i]
		ch := c.ch
		if c.send {
			if ch.Closed {
				panic(&goPanic{msg: "send on closed channel"})
			}
			if w := liveWaiter(&ch.recvq); w != nil {
				w.sel.fired, w.sel.caseIdx, w.sel.val, w.sel.ok = true, w.idx, c.val, true
				return i, nil, false
			}
			ch.Buf = append(ch.Buf, c.val)
			return i, nil, false
		}
		if len(ch.Buf) > 0 {
			v := ch.Buf[0]
			ch.Buf = ch.Buf[1:]
			if w := liveWaiter(&ch.sendq); w != nil {
				ch.Buf = append(ch.Buf, w.val)
				w.sel.fired, w.sel.caseIdx = true, w.idx
			}
			return i, v, true
		}
		if w := liveWaiter(&ch.sendq); w != nil {
			w.sel.fired, w.sel.caseIdx = true, w.idx
			return i, w.val, true
		}
		return i, zeroValue(ch.ET), false // closed
	}
	if hasDefault {
		return -1, nil, false
	}
	sel := &selState{}
	for i, c := range cases {
		if c.ch == nil {
			continue
		}
		w := &waiter{t: t, sel: sel, idx: i, val: c.val}
		if c.send {
			c.ch.sendq = append(c.ch.sendq, w)
		} else {
			c.ch.recvq = append(c.ch.recvq, w)
		}
	}
	t.block(func() bool { return sel.fired })
	if sel.panicCl {
		panic(&goPanic{msg: "send on closed channel"})
	}
	return sel.caseIdx, sel.val, sel.ok
}

func (t *Thread) closeChan(ch *ChanObj) {
	t.visible()
	if ch == nil {
		panic(&goPanic{msg: "close of nil channel"})
	}
	if ch.Closed {
		panic(&goPanic{msg: "close of closed channel"})
	}
	ch.Closed = true
	for {
		w := liveWaiter(&ch.recvq)
		if w == nil {
			break
		}
		w.sel.fired, w.sel.caseIdx, w.sel.val, w.sel.ok = true, w.idx, zeroValue(ch.ET), false
	}
	for {
		w := liveWaiter(&ch.sendq)
		if w == nil {
			break
		}
		w.sel.fired, w.sel.caseIdx, w.sel.panicCl = true, w.idx, true
	}
}

// ---------- locks ----------

type mutexState struct {
	writer  *Thread
	readers map[*Thread]int
	wwait   int
}

func (ex *Exec) mutexFor(c *Cell) *mutexState {
	if c == nil {
		panic(&goPanic{msg: "invalid memory address or nil pointer dereference"})
	}
	if m, ok := c.Tag.(*mutexState); ok {
		return m
	}
	m := &mutexState{readers: map[*Thread]int{}}
	c.Tag = m
	ex.allMutexes = append(ex.allMutexes, m)
	return m
}

func (t *Thread) lock(c *Cell) {
	t.visible()
	m := t.ex.mutexFor(c)
	if m.writer == t {
		t.ex.H.recordLockViolation(t.ex, "self-deadlock", "Lock of a mutex already held by the same goroutine")
		t.ex.end("self-deadlock")
	}
	if m.readers[t] > 0 {
		t.ex.H.recordLockViolation(t.ex, "self-deadlock", "Lock of an RWMutex while the same goroutine holds its read lock")
		t.ex.end("self-deadlock")
	}
	if m.writer != nil || len(m.readers) > 0 {
		m.wwait++
		t.block(func() bool { return m.writer == nil && len(m.readers) == 0 })
		m.wwait--
	}
	m.writer = t
}

func (t *Thread) unlock(c *Cell) {
	t.visible()
	m := t.ex.mutexFor(c)
	if m.writer == nil {
		panic(&goPanic{msg: "sync: unlock of unlocked mutex"})
	}
	m.writer = nil
}

func (t *Thread) rlock(c *Cell) {
	t.visible()
	m := t.ex.mutexFor(c)
	if m.writer == t {
		t.ex.H.recordLockViolation(t.ex, "self-deadlock", "RLock of an RWMutex write-locked by the same goroutine")
		t.ex.end("self-deadlock")
	}
	if m.readers[t] > 0 {
		// Go forbids recursive read locking: with a writer queued in between, the second RLock blocks forever
		if m.wwait > 0 {
			t.ex.H.recordLockViolation(t.ex, "self-deadlock", "RLock of an RWMutex re-entered by the goroutine that already holds it while a writer is waiting")
			t.ex.end("self-deadlock")
		}
		t.ex.H.noteHazard("recursive read lock of an RWMutex in " + shortFn(t.where))
	}
	if m.writer != nil || m.wwait > 0 {
		t.block(func() bool { return m.writer == nil && m.wwait == 0 })
	}
	m.readers[t]++
}

func (t *Thread) runlock(c *Cell) {
	t.visible()
	m := t.ex.mutexFor(c)
	// Go allows RUnlock from another goroutine; find any reader
	if m.readers[t] > 0 {
		m.readers[t]--
		if m.readers[t] == 0 {
			delete(m.readers, t)
		}
		return
	}
	for o := range m.readers {
		m.readers[o]--
		if m.readers[o] == 0 {
			delete(m.readers, o)
		}
		return
	}
	panic(&goPanic{msg: "sync: RUnlock of unlocked RWMutex"})
}

// heldLocks lists mutexes held by a thread (for leak checks). Only cells registered are known.
func (ex *Exec) describeThreads() string {
	var sb strings.Builder
	for _, t := range ex.threads {
		st := [...]string{"ready", "blocked", "finished"}[t.state]
		fmt.Fprintf(&sb, "thread %d (%s): %s; ", t.ID, t.what, st)
	}
	return sb.String()
}
