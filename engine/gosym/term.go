// Package gosym is a bounded symbolic executor for go/ssa that emits SMT-LIB2.
package gosym

import (
	"crypto/md5"
	"encoding/binary"
	"fmt"
	"math/big"
	"sort"
	"strings"
)

// Op is a term operator.
type Op int

const (
	OpConst Op = iota
	OpVar
	OpNot
	OpAnd
	OpOr
	OpIte
	OpEq
	// bit-vector
	OpAdd
	OpSub
	OpMul
	OpUDiv
	OpURem
	OpSDiv
	OpSRem
	OpBAnd
	OpBOr
	OpBXor
	OpShl
	OpLShr
	OpAShr
	OpBNot
	OpNeg
	OpULT
	OpULE
	OpSLT
	OpSLE
	OpConcat
	OpExtract // args[0], hi, lo in Hi/Lo
	OpZExt    // to width W
	OpSExt
	// real
	OpRAdd
	OpRSub
	OpRMul
	OpRDiv
	OpRNeg
	OpRLT
	OpRLE
	OpBV2Real // signed/unsigned in Lo (1 = signed)
)

// Width: >0 bit-vector width, 0 Bool, -1 Real.
const (
	WBool = 0
	WReal = -1
)

// Term is an SMT term. Terms are immutable.
type Term struct {
	Op   Op
	W    int
	Args []*Term
	BV   uint64   // constant bit-vector value (masked)
	B    bool     // constant bool
	Rat  *big.Rat // constant real
	Name string   // variable name
	Hi   int
	Lo   int
	key  *[16]byte // structural hash (lazily computed)
}

var (
	TTrue  = &Term{Op: OpConst, W: WBool, B: true}
	TFalse = &Term{Op: OpConst, W: WBool, B: false}
)

func init() { TTrue.Key(); TFalse.Key() }

func mask(w int) uint64 {
	if w >= 64 {
		return ^uint64(0)
	}
	return (uint64(1) << uint(w)) - 1
}

func MkBool(b bool) *Term {
	if b {
		return TTrue
	}
	return TFalse
}

func MkBV(v uint64, w int) *Term {
	if w <= 0 || w > 64 {
		panic(fmt.Sprintf("MkBV width %d", w))
	}
	return &Term{Op: OpConst, W: w, BV: v & mask(w)}
}

func MkReal(r *big.Rat) *Term { return &Term{Op: OpConst, W: WReal, Rat: r} }

func MkRealF(f float64) *Term {
	r := new(big.Rat)
	if r.SetFloat64(f) == nil {
		panic("MkRealF: non-finite float")
	}
	return MkReal(r)
}

func MkVar(name string, w int) *Term { return &Term{Op: OpVar, W: w, Name: name} }

func (t *Term) IsConst() bool { return t.Op == OpConst }

// Key is a structural hash of the term: structurally equal terms have equal keys.
func (t *Term) Key() [16]byte {
	if t.key != nil {
		return *t.key
	}
	h := md5.New()
	var hdr [24]byte
	binary.LittleEndian.PutUint32(hdr[0:], uint32(t.Op))
	binary.LittleEndian.PutUint32(hdr[4:], uint32(int32(t.W)))
	binary.LittleEndian.PutUint64(hdr[8:], t.BV)
	binary.LittleEndian.PutUint32(hdr[16:], uint32(int32(t.Hi)))
	binary.LittleEndian.PutUint32(hdr[20:], uint32(int32(t.Lo)))
	h.Write(hdr[:])
	if t.B {
		h.Write([]byte{1})
	}
	if t.Rat != nil {
		h.Write([]byte(t.Rat.String()))
	}
	h.Write([]byte(t.Name))
	for _, a := range t.Args {
		k := a.Key()
		h.Write(k[:])
	}
	var out [16]byte
	copy(out[:], h.Sum(nil))
	t.key = &out
	return out
}

// Signed value of a constant bit-vector.
func (t *Term) SInt() int64 {
	v := t.BV
	if t.W < 64 && v&(uint64(1)<<uint(t.W-1)) != 0 {
		v |= ^mask(t.W)
	}
	return int64(v)
}

func sameTerm(a, b *Term) bool {
	if a == b {
		return true
	}
	if a.Op != b.Op || a.W != b.W {
		return false
	}
	switch a.Op {
	case OpConst:
		switch {
		case a.W == WBool:
			return a.B == b.B
		case a.W == WReal:
			return a.Rat.Cmp(b.Rat) == 0
		default:
			return a.BV == b.BV
		}
	case OpVar:
		return a.Name == b.Name
	}
	return false
}

func Not(a *Term) *Term {
	if a.W != WBool {
		panic("Not on non-bool")
	}
	if a.IsConst() {
		return MkBool(!a.B)
	}
	if a.Op == OpNot {
		return a.Args[0]
	}
	return &Term{Op: OpNot, W: WBool, Args: []*Term{a}}
}

func And(ts ...*Term) *Term {
	var out []*Term
	for _, t := range ts {
		if t.W != WBool {
			panic("And on non-bool")
		}
		if t.IsConst() {
			if !t.B {
				return TFalse
			}
			continue
		}
		if t.Op == OpAnd {
			out = append(out, t.Args...)
			continue
		}
		out = append(out, t)
	}
	switch len(out) {
	case 0:
		return TTrue
	case 1:
		return out[0]
	}
	return &Term{Op: OpAnd, W: WBool, Args: out}
}

func Or(ts ...*Term) *Term {
	var out []*Term
	for _, t := range ts {
		if t.W != WBool {
			panic("Or on non-bool")
		}
		if t.IsConst() {
			if t.B {
				return TTrue
			}
			continue
		}
		if t.Op == OpOr {
			out = append(out, t.Args...)
			continue
		}
		out = append(out, t)
	}
	switch len(out) {
	case 0:
		return TFalse
	case 1:
		return out[0]
	}
	return &Term{Op: OpOr, W: WBool, Args: out}
}

func Implies(a, b *Term) *Term { return Or(Not(a), b) }

func Ite(c, a, b *Term) *Term {
	if c.IsConst() {
		if c.B {
			return a
		}
		return b
	}
	if a.W != b.W {
		panic(fmt.Sprintf("Ite width mismatch %d %d", a.W, b.W))
	}
	if sameTerm(a, b) {
		return a
	}
	if a.W == WBool {
		if a.IsConst() && b.IsConst() {
			if a.B {
				return c
			}
			return Not(c)
		}
		if a.IsConst() {
			if a.B {
				return Or(c, b)
			}
			return And(Not(c), b)
		}
		if b.IsConst() {
			if b.B {
				return Or(Not(c), a)
			}
			return And(c, a)
		}
	}
	return &Term{Op: OpIte, W: a.W, Args: []*Term{c, a, b}}
}

func Eq(a, b *Term) *Term {
	if a.W != b.W {
		panic(fmt.Sprintf("Eq width mismatch %d %d", a.W, b.W))
	}
	if sameTerm(a, b) {
		return TTrue
	}
	if a.IsConst() && b.IsConst() {
		return TFalse // sameTerm false on consts => different
	}
	if a.W == WBool {
		if a.IsConst() {
			if a.B {
				return b
			}
			return Not(b)
		}
		if b.IsConst() {
			if b.B {
				return a
			}
			return Not(a)
		}
	}
	// eq(ite(c, k1, k2), k) with constants folds
	if b.IsConst() && a.Op == OpIte && a.Args[1].IsConst() && a.Args[2].IsConst() {
		return Ite(a.Args[0], Eq(a.Args[1], b), Eq(a.Args[2], b))
	}
	if a.IsConst() && b.Op == OpIte && b.Args[1].IsConst() && b.Args[2].IsConst() {
		return Ite(b.Args[0], Eq(b.Args[1], a), Eq(b.Args[2], a))
	}
	return &Term{Op: OpEq, W: WBool, Args: []*Term{a, b}}
}

func sx(v uint64, w int) int64 {
	if w < 64 && v&(uint64(1)<<uint(w-1)) != 0 {
		v |= ^mask(w)
	}
	return int64(v)
}

// BVBin builds a binary bit-vector op with constant folding.
func BVBin(op Op, a, b *Term) *Term {
	if a.W != b.W || a.W <= 0 {
		panic(fmt.Sprintf("BVBin width mismatch op=%d %d %d", op, a.W, b.W))
	}
	w := a.W
	if a.IsConst() && b.IsConst() {
		x, y := a.BV, b.BV
		switch op {
		case OpAdd:
			return MkBV(x+y, w)
		case OpSub:
			return MkBV(x-y, w)
		case OpMul:
			return MkBV(x*y, w)
		case OpUDiv:
			if y != 0 {
				return MkBV(x/y, w)
			}
		case OpURem:
			if y != 0 {
				return MkBV(x%y, w)
			}
		case OpSDiv:
			if y != 0 {
				sa, sb := sx(x, w), sx(y, w)
				if !(sb == -1) {
					return MkBV(uint64(sa/sb), w)
				}
				return MkBV(uint64(-sa), w)
			}
		case OpSRem:
			if y != 0 {
				sa, sb := sx(x, w), sx(y, w)
				if sb == -1 {
					return MkBV(0, w)
				}
				return MkBV(uint64(sa%sb), w)
			}
		case OpBAnd:
			return MkBV(x&y, w)
		case OpBOr:
			return MkBV(x|y, w)
		case OpBXor:
			return MkBV(x^y, w)
		case OpShl:
			if y >= uint64(w) {
				return MkBV(0, w)
			}
			return MkBV(x<<y, w)
		case OpLShr:
			if y >= uint64(w) {
				return MkBV(0, w)
			}
			return MkBV(x>>y, w)
		case OpAShr:
			s := sx(x, w)
			if y >= uint64(w) {
				y = uint64(w - 1)
			}
			return MkBV(uint64(s>>y), w)
		}
	}
	// light identities
	switch op {
	case OpAdd, OpBOr, OpBXor:
		if a.IsConst() && a.BV == 0 {
			return b
		}
		if b.IsConst() && b.BV == 0 {
			return a
		}
	case OpSub, OpShl, OpLShr, OpAShr:
		if b.IsConst() && b.BV == 0 {
			return a
		}
	case OpBAnd:
		if (a.IsConst() && a.BV == 0) || (b.IsConst() && b.BV == 0) {
			return MkBV(0, w)
		}
		if a.IsConst() && a.BV == mask(w) {
			return b
		}
		if b.IsConst() && b.BV == mask(w) {
			return a
		}
	case OpMul:
		if a.IsConst() && a.BV == 1 {
			return b
		}
		if b.IsConst() && b.BV == 1 {
			return a
		}
		if (a.IsConst() && a.BV == 0) || (b.IsConst() && b.BV == 0) {
			return MkBV(0, w)
		}
	}
	return &Term{Op: op, W: w, Args: []*Term{a, b}}
}

// BVCmp builds a comparison.
func BVCmp(op Op, a, b *Term) *Term {
	if a.W != b.W || a.W <= 0 {
		panic(fmt.Sprintf("BVCmp width mismatch %d %d", a.W, b.W))
	}
	if a.IsConst() && b.IsConst() {
		switch op {
		case OpULT:
			return MkBool(a.BV < b.BV)
		case OpULE:
			return MkBool(a.BV <= b.BV)
		case OpSLT:
			return MkBool(a.SInt() < b.SInt())
		case OpSLE:
			return MkBool(a.SInt() <= b.SInt())
		}
	}
	if sameTerm(a, b) {
		return MkBool(op == OpULE || op == OpSLE)
	}
	return &Term{Op: op, W: WBool, Args: []*Term{a, b}}
}

func BVNot(a *Term) *Term {
	if a.IsConst() {
		return MkBV(^a.BV, a.W)
	}
	return &Term{Op: OpBNot, W: a.W, Args: []*Term{a}}
}

func BVNeg(a *Term) *Term {
	if a.IsConst() {
		return MkBV(-a.BV, a.W)
	}
	return &Term{Op: OpNeg, W: a.W, Args: []*Term{a}}
}

func Extract(a *Term, hi, lo int) *Term {
	if hi-lo+1 == a.W {
		return a
	}
	if a.IsConst() {
		return MkBV(a.BV>>uint(lo), hi-lo+1)
	}
	if a.Op == OpZExt && hi < a.Args[0].W {
		return Extract(a.Args[0], hi, lo)
	}
	if a.Op == OpConcat {
		// concat(hiPart, loPart)
		lw := a.Args[1].W
		if hi < lw {
			return Extract(a.Args[1], hi, lo)
		}
		if lo >= lw {
			return Extract(a.Args[0], hi-lw, lo-lw)
		}
	}
	return &Term{Op: OpExtract, W: hi - lo + 1, Args: []*Term{a}, Hi: hi, Lo: lo}
}

func ZExt(a *Term, w int) *Term {
	if w == a.W {
		return a
	}
	if w < a.W {
		return Extract(a, w-1, 0)
	}
	if a.IsConst() {
		return MkBV(a.BV, w)
	}
	return &Term{Op: OpZExt, W: w, Args: []*Term{a}}
}

func SExt(a *Term, w int) *Term {
	if w == a.W {
		return a
	}
	if w < a.W {
		return Extract(a, w-1, 0)
	}
	if a.IsConst() {
		return MkBV(uint64(a.SInt()), w)
	}
	return &Term{Op: OpSExt, W: w, Args: []*Term{a}}
}

func Concat(hi, lo *Term) *Term {
	if hi.IsConst() && lo.IsConst() && hi.W+lo.W <= 64 {
		return MkBV(hi.BV<<uint(lo.W)|lo.BV, hi.W+lo.W)
	}
	if hi.IsConst() && hi.BV == 0 {
		return ZExt(lo, hi.W+lo.W)
	}
	return &Term{Op: OpConcat, W: hi.W + lo.W, Args: []*Term{hi, lo}}
}

// Real ops.
func RBin(op Op, a, b *Term) *Term {
	if a.W != WReal || b.W != WReal {
		panic("RBin on non-real")
	}
	if a.IsConst() && b.IsConst() {
		r := new(big.Rat)
		switch op {
		case OpRAdd:
			return MkReal(r.Add(a.Rat, b.Rat))
		case OpRSub:
			return MkReal(r.Sub(a.Rat, b.Rat))
		case OpRMul:
			return MkReal(r.Mul(a.Rat, b.Rat))
		case OpRDiv:
			if b.Rat.Sign() != 0 {
				return MkReal(r.Quo(a.Rat, b.Rat))
			}
		}
	}
	return &Term{Op: op, W: WReal, Args: []*Term{a, b}}
}

func RCmp(op Op, a, b *Term) *Term {
	if a.IsConst() && b.IsConst() {
		c := a.Rat.Cmp(b.Rat)
		if op == OpRLT {
			return MkBool(c < 0)
		}
		return MkBool(c <= 0)
	}
	if sameTerm(a, b) {
		return MkBool(op == OpRLE)
	}
	return &Term{Op: op, W: WBool, Args: []*Term{a, b}}
}

func RNeg(a *Term) *Term {
	if a.IsConst() {
		return MkReal(new(big.Rat).Neg(a.Rat))
	}
	return &Term{Op: OpRNeg, W: WReal, Args: []*Term{a}}
}

func BV2Real(a *Term, signed bool) *Term {
	if a.IsConst() {
		if signed {
			return MkReal(new(big.Rat).SetInt64(a.SInt()))
		}
		return MkReal(new(big.Rat).SetInt(new(big.Int).SetUint64(a.BV)))
	}
	s := 0
	if signed {
		s = 1
	}
	return &Term{Op: OpBV2Real, W: WReal, Args: []*Term{a}, Lo: s}
}

// ---------- printing ----------

func sortName(w int) string {
	switch {
	case w == WBool:
		return "Bool"
	case w == WReal:
		return "Real"
	}
	return fmt.Sprintf("(_ BitVec %d)", w)
}

var opNames = map[Op]string{
	OpNot: "not", OpAnd: "and", OpOr: "or", OpIte: "ite", OpEq: "=",
	OpAdd: "bvadd", OpSub: "bvsub", OpMul: "bvmul", OpUDiv: "bvudiv", OpURem: "bvurem",
	OpSDiv: "bvsdiv", OpSRem: "bvsrem", OpBAnd: "bvand", OpBOr: "bvor", OpBXor: "bvxor",
	OpShl: "bvshl", OpLShr: "bvlshr", OpAShr: "bvashr", OpBNot: "bvnot", OpNeg: "bvneg",
	OpULT: "bvult", OpULE: "bvule", OpSLT: "bvslt", OpSLE: "bvsle", OpConcat: "concat",
	OpRAdd: "+", OpRSub: "-", OpRMul: "*", OpRDiv: "/", OpRNeg: "-", OpRLT: "<", OpRLE: "<=",
}

// Printer renders a set of assertions with shared sub-terms bound once.
type Printer struct {
	vars  map[string]int
	names map[*Term]string
	defs  []string
	count map[*Term]int
}

func NewPrinter() *Printer {
	return &Printer{vars: map[string]int{}, names: map[*Term]string{}, count: map[*Term]int{}}
}

func (p *Printer) countRefs(t *Term) {
	p.count[t]++
	if p.count[t] > 1 {
		return
	}
	for _, a := range t.Args {
		p.countRefs(a)
	}
}

func ratString(r *big.Rat) string {
	neg := r.Sign() < 0
	a := new(big.Rat).Abs(r)
	var s string
	if a.IsInt() {
		s = a.Num().String() + ".0"
	} else {
		s = "(/ " + a.Num().String() + ".0 " + a.Denom().String() + ".0)"
	}
	if neg {
		return "(- " + s + ")"
	}
	return s
}

func (p *Printer) render(t *Term) string {
	if n, ok := p.names[t]; ok {
		return n
	}
	var s string
	switch t.Op {
	case OpConst:
		switch {
		case t.W == WBool:
			if t.B {
				return "true"
			}
			return "false"
		case t.W == WReal:
			return ratString(t.Rat)
		default:
			if t.W%4 == 0 {
				return fmt.Sprintf("#x%0*x", t.W/4, t.BV)
			}
			return fmt.Sprintf("#b%0*b", t.W, t.BV)
		}
	case OpVar:
		p.vars[t.Name] = t.W
		return t.Name
	case OpExtract:
		s = fmt.Sprintf("((_ extract %d %d) %s)", t.Hi, t.Lo, p.render(t.Args[0]))
	case OpZExt:
		s = fmt.Sprintf("((_ zero_extend %d) %s)", t.W-t.Args[0].W, p.render(t.Args[0]))
	case OpSExt:
		s = fmt.Sprintf("((_ sign_extend %d) %s)", t.W-t.Args[0].W, p.render(t.Args[0]))
	case OpBV2Real:
		a := p.render(t.Args[0])
		if t.Lo == 1 {
			w := t.Args[0].W
			s = fmt.Sprintf("(to_real (ite (bvslt %s (_ bv0 %d)) (- (bv2nat (bvneg %s))) (bv2nat %s)))", a, w, a, a)
		} else {
			s = fmt.Sprintf("(to_real (bv2nat %s))", a)
		}
	default:
		name, ok := opNames[t.Op]
		if !ok {
			panic(fmt.Sprintf("render: op %d", t.Op))
		}
		var sb strings.Builder
		sb.WriteString("(")
		sb.WriteString(name)
		for _, a := range t.Args {
			sb.WriteString(" ")
			sb.WriteString(p.render(a))
		}
		sb.WriteString(")")
		s = sb.String()
	}
	if p.count[t] > 1 && len(t.Args) > 0 {
		n := fmt.Sprintf("d!%d", len(p.defs))
		p.defs = append(p.defs, fmt.Sprintf("(define-fun %s () %s %s)", n, sortName(t.W), s))
		p.names[t] = n
		return n
	}
	return s
}

// Script renders "declare..., define..., assert..." for the conjunction of ts.
// Declarations must precede definitions that use them, so output is assembled at the end.
func (p *Printer) Script(ts []*Term) (string, []string) {
	for _, t := range ts {
		p.countRefs(t)
	}
	var asserts []string
	for _, t := range ts {
		asserts = append(asserts, "(assert "+p.render(t)+")")
	}
	var names []string
	for n := range p.vars {
		names = append(names, n)
	}
	sort.Strings(names)
	var sb strings.Builder
	for _, n := range names {
		fmt.Fprintf(&sb, "(declare-const %s %s)\n", n, sortName(p.vars[n]))
	}
	for _, d := range p.defs {
		sb.WriteString(d)
		sb.WriteString("\n")
	}
	for _, a := range asserts {
		sb.WriteString(a)
		sb.WriteString("\n")
	}
	return sb.String(), names
}

// VarWidth returns the declared width of a variable seen by this printer.
func (p *Printer) VarWidth(n string) int { return p.vars[n] }

// Eval evaluates a term under a model (variables missing from the model are 0/false).
func Eval(t *Term, m *Model) *Term {
	if t.IsConst() {
		return t
	}
	if t.Op == OpVar {
		return m.Value(t.Name, t.W)
	}
	cache := map[*Term]*Term{}
	var ev func(t *Term) *Term
	ev = func(t *Term) *Term {
		if t.IsConst() {
			return t
		}
		if r, ok := cache[t]; ok {
			return r
		}
		var r *Term
		if t.Op == OpVar {
			r = m.Value(t.Name, t.W)
		} else {
			args := make([]*Term, len(t.Args))
			for i, a := range t.Args {
				args[i] = ev(a)
			}
			r = rebuild(t, args)
		}
		cache[t] = r
		return r
	}
	return ev(t)
}

func rebuild(t *Term, a []*Term) *Term {
	switch t.Op {
	case OpNot:
		return Not(a[0])
	case OpAnd:
		return And(a...)
	case OpOr:
		return Or(a...)
	case OpIte:
		return Ite(a[0], a[1], a[2])
	case OpEq:
		return Eq(a[0], a[1])
	case OpAdd, OpSub, OpMul, OpUDiv, OpURem, OpSDiv, OpSRem, OpBAnd, OpBOr, OpBXor, OpShl, OpLShr, OpAShr:
		if (t.Op == OpUDiv || t.Op == OpURem || t.Op == OpSDiv || t.Op == OpSRem) && a[1].IsConst() && a[1].BV == 0 {
			// SMT-LIB total semantics
			switch t.Op {
			case OpUDiv:
				return MkBV(mask(t.W), t.W)
			case OpURem, OpSRem:
				return a[0]
			case OpSDiv:
				if a[0].IsConst() && a[0].SInt() < 0 {
					return MkBV(1, t.W)
				}
				return MkBV(mask(t.W), t.W)
			}
		}
		return BVBin(t.Op, a[0], a[1])
	case OpULT, OpULE, OpSLT, OpSLE:
		return BVCmp(t.Op, a[0], a[1])
	case OpBNot:
		return BVNot(a[0])
	case OpNeg:
		return BVNeg(a[0])
	case OpConcat:
		return Concat(a[0], a[1])
	case OpExtract:
		return Extract(a[0], t.Hi, t.Lo)
	case OpZExt:
		return ZExt(a[0], t.W)
	case OpSExt:
		return SExt(a[0], t.W)
	case OpRAdd, OpRSub, OpRMul, OpRDiv:
		return RBin(t.Op, a[0], a[1])
	case OpRNeg:
		return RNeg(a[0])
	case OpRLT, OpRLE:
		return RCmp(t.Op, a[0], a[1])
	case OpBV2Real:
		return BV2Real(a[0], t.Lo == 1)
	}
	panic(fmt.Sprintf("rebuild op %d", t.Op))
}

// Model maps variable names to constant terms.
type Model struct {
	Vals map[string]*Term
}

func (m *Model) Value(name string, w int) *Term {
	if m != nil {
		if v, ok := m.Vals[name]; ok {
			return v
		}
	}
	switch {
	case w == WBool:
		return TFalse
	case w == WReal:
		return MkReal(new(big.Rat))
	}
	return MkBV(0, w)
}
