package gosym

import (
	"fmt"
	"os"
	"path/filepath"
	"regexp"
	"sort"
	"strings"

	"golang.org/x/tools/go/packages"
	"golang.org/x/tools/go/ssa"
	"golang.org/x/tools/go/ssa/ssautil"
)

// Program is the loaded SSA program plus the harness overlay.
type Program struct {
	SSA      *ssa.Program
	Pkgs     []*ssa.Package
	RepoDir  string
	Module   string
	Overlay  map[string]string // virtual path -> real path
	allow    map[string]bool
	allowPre []string
	LoadSecs float64
}

const VerifAPIPath = "github.com/ansible/receptor/internal/verifapi"

// packages whose Go source is executed symbolically (everything else must be an intrinsic).
var interpretAllow = []string{
	"errors", "io", "bytes", "strings", "sort", "container/heap", "encoding/binary", "unicode/utf8",
	"unicode", "strconv", "math", "math/bits", "slices", "maps", "cmp", "container/list", "path", "path/filepath",
	"github.com/jupp0r/go-priority-queue", "internal/bytealg", "internal/stringslite", "internal/byteorder",
	"internal/itoa", "io/fs", "internal/oserror", "bufio", "encoding/hex", "encoding/base64", "text/tabwriter",
}

// single pure functions of non-interpretable packages that are executed symbolically
var interpretFuncs = map[string]bool{
	"(encoding/asn1.ObjectIdentifier).Equal": true,
	"(net.IP).To4":                           true,
	"net.isZeros":                            true,
	"(net.IP).Equal":                         true,
	"net.bytesEqual":                         true,
	"(*github.com/golang-jwt/jwt/v4.RegisteredClaims).VerifyAudience": true,
	"github.com/golang-jwt/jwt/v4.verifyAud":                          true,
}

// packages whose package-level variable initialisers are run although their functions are stubbed.
var initOnly = map[string]bool{"context": true}

func (p *Program) interpretable(path string) bool {
	if p.allow[path] {
		return true
	}
	for _, pre := range p.allowPre {
		if strings.HasPrefix(path, pre) {
			return true
		}
	}
	return false
}

// BuildOverlay maps every harness file under harnessDir into the repository tree.
// harnessDir/<rel pkg dir>/x.go  ->  repo/<rel pkg dir>/zz_verif_x.go
// harnessDir/verifapi/*.go       ->  repo/internal/verifapi/*.go
func BuildOverlay(repo, harnessDir string, native bool) (map[string]string, error) {
	ov := map[string]string{}
	err := filepath.Walk(harnessDir, func(path string, info os.FileInfo, err error) error {
		if err != nil {
			return err
		}
		if info.IsDir() || !strings.HasSuffix(path, ".go") {
			return nil
		}
		rel, _ := filepath.Rel(harnessDir, path)
		dir := filepath.Dir(rel)
		base := filepath.Base(rel)
		if dir == "verifapi" {
			ov[filepath.Join(repo, "internal", "verifapi", base)] = path
			return nil
		}
		ov[filepath.Join(repo, dir, "zz_verif_"+base)] = path
		return nil
	})
	return ov, err
}

// Load loads the given package patterns of the repository with the harness overlay.
func Load(repo, harnessDir string, patterns []string) (*Program, error) {
	ov, err := BuildOverlay(repo, harnessDir, false)
	if err != nil {
		return nil, err
	}
	overlay := map[string][]byte{}
	for v, r := range ov {
		b, err := os.ReadFile(r)
		if err != nil {
			return nil, err
		}
		overlay[v] = b
	}
	cfg := &packages.Config{
		Mode:    packages.LoadAllSyntax,
		Dir:     repo,
		Overlay: overlay,
		Env:     append(os.Environ(), "GOFLAGS=-mod=mod", "GOPROXY=off", "GOSUMDB=off", "GOTOOLCHAIN=local"),
		Tests:   false,
	}
	pkgs, err := packages.Load(cfg, patterns...)
	if err != nil {
		return nil, err
	}
	var errs []string
	packages.Visit(pkgs, nil, func(p *packages.Package) {
		for _, e := range p.Errors {
			errs = append(errs, e.Error())
		}
	})
	if len(errs) > 0 {
		sort.Strings(errs)
		if len(errs) > 12 {
			errs = errs[:12]
		}
		return nil, fmt.Errorf("load errors (harness does not compile against the tree?):\n%s", strings.Join(errs, "\n"))
	}
	prog, spkgs := ssautil.AllPackages(pkgs, ssa.InstantiateGenerics)
	prog.Build()
	p := &Program{SSA: prog, RepoDir: repo, Overlay: ov, allow: map[string]bool{}}
	for _, a := range interpretAllow {
		p.allow[a] = true
	}
	p.allowPre = []string{"github.com/ansible/receptor/"}
	for _, sp := range spkgs {
		if sp != nil {
			p.Pkgs = append(p.Pkgs, sp)
		}
	}
	return p, nil
}

// Harnesses returns the Verif_* functions matching re, sorted by name.
func (p *Program) Harnesses(re *regexp.Regexp) []*ssa.Function {
	var out []*ssa.Function
	for _, pkg := range p.SSA.AllPackages() {
		if !strings.HasPrefix(pkg.Pkg.Path(), "github.com/ansible/receptor/") {
			continue
		}
		for name, m := range pkg.Members {
			fn, ok := m.(*ssa.Function)
			if !ok || !strings.HasPrefix(name, "Verif_") {
				continue
			}
			if re.MatchString(name) {
				out = append(out, fn)
			}
		}
	}
	sort.Slice(out, func(i, j int) bool { return out[i].Name() < out[j].Name() })
	return out
}

func (p *Program) FuncByName(full string) *ssa.Function {
	// full = "pkgpath.Name"
	i := strings.LastIndex(full, ".")
	if i < 0 {
		return nil
	}
	pkg := p.SSA.ImportedPackage(full[:i])
	if pkg == nil {
		return nil
	}
	return pkg.Func(full[i+1:])
}
