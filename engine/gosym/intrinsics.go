package gosym

import (
	"fmt"
	"go/types"
	"strings"

	"golang.org/x/tools/go/ssa"
)

type intrinsic func(t *Thread, fn *ssa.Function, args []Value) Value

var intrinsics = map[string]intrinsic{}

// StubsUsed records which library stubs were hit (reported in the evidence).
var StubsUsed = map[string]bool{}
var stubMu = make(chan struct{}, 1)

func noteStub(name string) {
	stubMu <- struct{}{}
	StubsUsed[name] = true
	<-stubMu
}

const apiP = VerifAPIPath + "."

func zeroResults(fn *ssa.Function) Value {
	res := fn.Signature.Results()
	switch res.Len() {
	case 0:
		return nil
	case 1:
		return zeroValue(res.At(0).Type())
	}
	return zeroValue(res)
}

func prefixIntrinsic(name string, fn *ssa.Function) intrinsic {
	p := funcPkgPath(fn)
	switch p {
	case "github.com/ansible/receptor/pkg/logger":
		return func(t *Thread, fn *ssa.Function, args []Value) Value {
			noteStub("logger.* (no effect)")
			if fn.Name() == "GetLogLevelByName" {
				return Tuple{MkBV(4, 64), (*IfaceVal)(nil)}
			}
			if fn.Name() == "NewReceptorLogger" {
				return newCell(fn.Signature.Results().At(0).Type().(*types.Pointer).Elem())
			}
			return zeroResults(fn)
		}
	}
	return nil
}

func concreteStr(v Value, what string) string {
	s, ok := v.(*StrVal).Concrete()
	if !ok {
		unsupportedf("%s must be a concrete string", what)
	}
	return s
}

func (ex *Exec) input(kind string, terms ...*Term) {
	ex.inputs = append(ex.inputs, InputRec{Kind: kind, Terms: terms})
}

func (ex *Exec) freshBytes(n int, prefix string) []*Term {
	out := make([]*Term, n)
	for i := range out {
		out[i] = ex.fresh(prefix, 8)
	}
	return out
}

func byteSliceOf(ts []*Term) *SliceVal {
	arr := newArrayCell(types.Typ[types.Byte], len(ts))
	for i, b := range ts {
		arr.Elem(i).V = b
	}
	return &SliceVal{Arr: arr, Len: len(ts), Cap: len(ts)}
}

func sliceBytes(s *SliceVal) []*Term {
	out := make([]*Term, s.Len)
	for i := 0; i < s.Len; i++ {
		out[i] = s.Arr.Elem(s.Off + i).V.(*Term)
	}
	return out
}

func mkError(t *Thread, msg *StrVal) Value {
	// &errors.errorString{s: msg}
	ep := t.ex.prog.SSA.ImportedPackage("errors")
	if ep == nil {
		unsupportedf("package errors not loaded")
	}
	typ := ep.Type("errorString").Type()
	c := newCell(typ)
	c.Sub[0].V = msg
	return &IfaceVal{T: types.NewPointer(typ), V: c}
}

func boolTerm(v Value) *Term { return v.(*Term) }

func init() {
	I := intrinsics
	// ---------------- verifapi ----------------
	I[apiP+"Engine"] = func(t *Thread, fn *ssa.Function, a []Value) Value { return TTrue }
	I[apiP+"Tier"] = func(t *Thread, fn *ssa.Function, a []Value) Value {
		if t.ex.H.Run.Tier == "thorough" {
			return MkBV(1, 64)
		}
		return MkBV(0, 64)
	}
	I[apiP+"Byte"] = func(t *Thread, fn *ssa.Function, a []Value) Value {
		v := t.ex.fresh("in_b", 8)
		t.ex.input("byte", v)
		return v
	}
	I[apiP+"Bool"] = func(t *Thread, fn *ssa.Function, a []Value) Value {
		v := t.ex.fresh("in_p", WBool)
		t.ex.input("bool", v)
		return v
	}
	I[apiP+"Uint64"] = func(t *Thread, fn *ssa.Function, a []Value) Value {
		v := t.ex.fresh("in_u", 64)
		t.ex.input("u64", v)
		return v
	}
	I[apiP+"Int64"] = func(t *Thread, fn *ssa.Function, a []Value) Value {
		v := t.ex.fresh("in_i", 64)
		t.ex.input("i64", v)
		return v
	}
	I[apiP+"Int"] = func(t *Thread, fn *ssa.Function, a []Value) Value {
		v := t.ex.fresh("in_n", 64)
		t.ex.input("int", v)
		return v
	}
	I[apiP+"Float"] = func(t *Thread, fn *ssa.Function, a []Value) Value {
		v := t.ex.fresh("in_f", WReal)
		t.ex.input("float", v)
		return v
	}
	I[apiP+"Choose"] = func(t *Thread, fn *ssa.Function, a []Value) Value {
		n := t.concreteInt(a[0].(*Term), "Choose bound")
		k := t.ex.choose(n)
		t.ex.inputs = append(t.ex.inputs, InputRec{Kind: "choose", N: k})
		return MkBV(uint64(k), 64)
	}
	I[apiP+"Bytes"] = func(t *Thread, fn *ssa.Function, a []Value) Value {
		n := t.concreteInt(a[0].(*Term), "Bytes length")
		bs := t.ex.freshBytes(n, "in_y")
		t.ex.input("bytes", bs...)
		return byteSliceOf(bs)
	}
	I[apiP+"String"] = func(t *Thread, fn *ssa.Function, a []Value) Value {
		n := t.concreteInt(a[0].(*Term), "String length")
		bs := t.ex.freshBytes(n, "in_s")
		t.ex.input("string", bs...)
		return &StrVal{B: bs}
	}
	I[apiP+"Assume"] = func(t *Thread, fn *ssa.Function, a []Value) Value {
		t.ex.assume(boolTerm(a[0]))
		return nil
	}
	I[apiP+"Assert"] = func(t *Thread, fn *ssa.Function, a []Value) Value {
		t.ex.obligation(concreteStr(a[0], "Assert name"), boolTerm(a[1]), "assertion failed")
		return nil
	}
	I[apiP+"Cover"] = func(t *Thread, fn *ssa.Function, a []Value) Value {
		n := concreteStr(a[0], "Cover name")
		t.ex.H.mu.Lock()
		t.ex.H.Covers[n]++
		t.ex.H.mu.Unlock()
		return nil
	}
	I[apiP+"Known"] = func(t *Thread, fn *ssa.Function, a []Value) Value {
		t.ex.knowns = append(t.ex.knowns, knownRec{concreteStr(a[0], "Known tag"), boolTerm(a[1])})
		return nil
	}
	I[apiP+"Note"] = func(t *Thread, fn *ssa.Function, a []Value) Value {
		t.ex.notes[concreteStr(a[0], "Note key")] = t.concreteInt(a[1].(*Term), "note")
		return nil
	}
	I[apiP+"SetUnwind"] = func(t *Thread, fn *ssa.Function, a []Value) Value {
		t.ex.unwind = t.concreteInt(a[0].(*Term), "unwind")
		t.ex.unwindAs = concreteStr(a[1], "unwind name")
		t.ex.unwindFn = ""
		if i := strings.Index(t.ex.unwindAs, "@"); i >= 0 {
			// "name@function": the bound applies only to loops of functions whose name contains "function"
			t.ex.unwindAs, t.ex.unwindFn = t.ex.unwindAs[:i], t.ex.unwindAs[i+1:]
		}
		return nil
	}
	I[apiP+"ExploreSchedules"] = func(t *Thread, fn *ssa.Function, a []Value) Value {
		t.ex.explore = true
		t.ex.preempt = t.concreteInt(a[0].(*Term), "preemptions")
		return nil
	}
	I[apiP+"SelectFork"] = func(t *Thread, fn *ssa.Function, a []Value) Value {
		t.ex.selFork = a[0].(*Term).B
		return nil
	}
	I[apiP+"Quiesce"] = func(t *Thread, fn *ssa.Function, a []Value) Value {
		ex := t.ex
		others := func() bool {
			for _, o := range ex.threads {
				if o != t && o.runnable() {
					return true
				}
			}
			return false
		}
		for others() {
			// yield with lowest priority: become blocked until no other thread can run
			t.block(func() bool { return !others() })
		}
		return nil
	}
	I[apiP+"AdvanceTime"] = func(t *Thread, fn *ssa.Function, a []Value) Value {
		if tm := t.ex.nextTimer(); tm != nil {
			t.ex.fireTimer(tm)
		}
		return nil
	}
	I[apiP+"Redirect"] = func(t *Thread, fn *ssa.Function, a []Value) Value {
		name := concreteStr(a[0], "Redirect name")
		iv, _ := a[1].(*IfaceVal)
		if iv == nil {
			delete(t.ex.dynRedirect, name)
			return nil
		}
		fv, ok := iv.V.(*FuncVal)
		if !ok || fv == nil {
			unsupportedf("Redirect(%s): not a function", name)
		}
		noteStub("harness model substituted for " + name)
		t.ex.dynRedirect[name] = fv
		return nil
	}
	I[apiP+"GoLow"] = func(t *Thread, fn *ssa.Function, a []Value) Value {
		fv, _ := a[0].(*FuncVal)
		if fv == nil {
			rtPanic("GoLow(nil)")
		}
		th := t.ex.newThread(fv, nil, "low-priority "+fv.Fn.String())
		th.low = true
		return nil
	}
	I[apiP+"Yield"] = func(t *Thread, fn *ssa.Function, a []Value) Value { t.visible(); return nil }
	I[apiP+"Blocked"] = func(t *Thread, fn *ssa.Function, a []Value) Value {
		for _, o := range t.ex.threads {
			if o != t && o.runnable() {
				return TFalse
			}
		}
		return TTrue
	}
	I[apiP+"All"] = func(t *Thread, fn *ssa.Function, a []Value) Value {
		sl := a[0].(*SliceVal)
		cs := make([]*Term, sl.Len)
		for i := range cs {
			cs[i] = sl.Arr.Elem(sl.Off + i).V.(*Term)
		}
		return And(cs...)
	}
	I[apiP+"Any"] = func(t *Thread, fn *ssa.Function, a []Value) Value {
		sl := a[0].(*SliceVal)
		cs := make([]*Term, sl.Len)
		for i := range cs {
			cs[i] = sl.Arr.Elem(sl.Off + i).V.(*Term)
		}
		return Or(cs...)
	}
	I[apiP+"SameBytes"] = func(t *Thread, fn *ssa.Function, a []Value) Value {
		return eqValue(&StrVal{B: sliceBytes(a[0].(*SliceVal))}, &StrVal{B: sliceBytes(a[1].(*SliceVal))}, nil)
	}
	I[apiP+"Ite"] = func(t *Thread, fn *ssa.Function, a []Value) Value {
		return Ite(a[0].(*Term), a[1].(*Term), a[2].(*Term))
	}
	I[apiP+"FIte"] = func(t *Thread, fn *ssa.Function, a []Value) Value {
		return Ite(a[0].(*Term), a[1].(*Term), a[2].(*Term))
	}
	I[apiP+"PutIf"] = func(t *Thread, fn *ssa.Function, a []Value) Value {
		m := a[0].(*MapObj)
		if m == nil {
			panic(&goPanic{msg: "assignment to entry in nil map"})
		}
		c := a[3].(*Term)
		// the key is assumed distinct from the keys already present (harness obligation)
		for _, e := range m.E {
			t.ex.assume(Not(And(e.P, c, eqValue(e.K, a[1], m.KT))))
		}
		m.E = append(m.E, &MapEntry{K: a[1], P: c, V: a[2]})
		return nil
	}
	I[apiP+"DeepCopy"] = func(t *Thread, fn *ssa.Function, a []Value) Value {
		return deepCopy(a[0], fn.Signature.Params().At(0).Type(), map[*Cell]*Cell{})
	}
	I[apiP+"DeepEqual"] = func(t *Thread, fn *ssa.Function, a []Value) Value {
		return t.deepEqual(a[0], a[1], fn.Signature.Params().At(0).Type())
	}
	I[apiP+"InjectiveHash"] = func(t *Thread, fn *ssa.Function, a []Value) Value {
		noteStub("name hash of names > 7 bytes = uninterpreted injective function")
		ex := t.ex
		s := &StrVal{B: sliceBytes(a[0].(*SliceVal))}
		h := ex.fresh("hash", 64)
		ex.pc = append(ex.pc, Eq(Extract(h, 7, 0), MkBV(0xff, 8)))
		for _, p := range ex.hashes {
			same := eqValue(p.s, s, nil)
			if same.IsConst() && same.B {
				return p.h
			}
			ex.pc = append(ex.pc, Eq(Eq(h, p.h), same))
		}
		ex.hashes = append(ex.hashes, hashRec{s, h})
		return h
	}
	I[apiP+"Unsupported"] = func(t *Thread, fn *ssa.Function, a []Value) Value {
		unsupportedf("harness: %s", concreteStr(a[0], "reason"))
		return nil
	}
	I[apiP+"JSON"] = func(t *Thread, fn *ssa.Function, a []Value) Value { return jsonMarshal(t, a[0].(*IfaceVal)) }
	I[apiP+"FromJSON"] = func(t *Thread, fn *ssa.Function, a []Value) Value {
		r := jsonUnmarshal(t, a[0].(*SliceVal), a[1].(*IfaceVal), false)
		return MkBool(r.(*IfaceVal) == nil)
	}

	// ---------------- sync ----------------
	I["(*sync.Mutex).Lock"] = func(t *Thread, fn *ssa.Function, a []Value) Value { t.lock(a[0].(*Cell)); return nil }
	I["(*sync.Mutex).Unlock"] = func(t *Thread, fn *ssa.Function, a []Value) Value { t.unlock(a[0].(*Cell)); return nil }
	I["(*sync.Mutex).TryLock"] = func(t *Thread, fn *ssa.Function, a []Value) Value {
		m := t.ex.mutexFor(a[0].(*Cell))
		if m.writer != nil || len(m.readers) > 0 {
			return TFalse
		}
		m.writer = t
		return TTrue
	}
	I["(*sync.RWMutex).Lock"] = I["(*sync.Mutex).Lock"]
	I["(*sync.RWMutex).Unlock"] = I["(*sync.Mutex).Unlock"]
	I["(*sync.RWMutex).RLock"] = func(t *Thread, fn *ssa.Function, a []Value) Value { t.rlock(a[0].(*Cell)); return nil }
	I["(*sync.RWMutex).RUnlock"] = func(t *Thread, fn *ssa.Function, a []Value) Value { t.runlock(a[0].(*Cell)); return nil }
	I["(*sync.WaitGroup).Add"] = func(t *Thread, fn *ssa.Function, a []Value) Value {
		c := a[0].(*Cell)
		n, _ := c.Tag.(int)
		n += t.concreteInt(a[1].(*Term), "WaitGroup delta")
		if n < 0 {
			panic(&goPanic{msg: "sync: negative WaitGroup counter"})
		}
		c.Tag = n
		return nil
	}
	I["(*sync.WaitGroup).Done"] = func(t *Thread, fn *ssa.Function, a []Value) Value {
		c := a[0].(*Cell)
		n, _ := c.Tag.(int)
		n--
		if n < 0 {
			panic(&goPanic{msg: "sync: negative WaitGroup counter"})
		}
		c.Tag = n
		return nil
	}
	I["(*sync.WaitGroup).Wait"] = func(t *Thread, fn *ssa.Function, a []Value) Value {
		c := a[0].(*Cell)
		t.visible()
		t.block(func() bool { n, _ := c.Tag.(int); return n == 0 })
		return nil
	}
	I["(*sync.Once).Do"] = func(t *Thread, fn *ssa.Function, a []Value) Value {
		c := a[0].(*Cell)
		if done, _ := c.Tag.(bool); done {
			return nil
		}
		c.Tag = true
		t.callFunc(a[1].(*FuncVal), nil)
		return nil
	}

	// ---------------- fmt ----------------
	I["fmt.Sprintf"] = func(t *Thread, fn *ssa.Function, a []Value) Value {
		return sprintf(t, a[0].(*StrVal), a[1].(*SliceVal))
	}
	I["fmt.Errorf"] = func(t *Thread, fn *ssa.Function, a []Value) Value {
		return mkError(t, sprintf(t, a[0].(*StrVal), a[1].(*SliceVal)))
	}
	// fmt.Sscan(concrete string, *int64): decided by the real fmt package at encode time
	I["fmt.Sscan"] = func(t *Thread, fn *ssa.Function, a []Value) Value {
		str, ok := a[0].(*StrVal).Concrete()
		sl := a[1].(*SliceVal)
		if !ok || sl.Len != 1 {
			unsupportedf("fmt.Sscan: only a concrete string into one *int64 is modelled")
		}
		iv, _ := sl.Arr.Elem(sl.Off).V.(*IfaceVal)
		var cell *Cell
		if iv != nil {
			cell, _ = iv.V.(*Cell)
		}
		if cell == nil {
			unsupportedf("fmt.Sscan: destination is not a pointer")
		}
		if tt, isT := cell.V.(*Term); !isT || tt.W != 64 {
			unsupportedf("fmt.Sscan: only *int64 destinations are modelled")
		}
		noteStub("fmt.Sscan(concrete string, *int64) decided by the real fmt package at encode time")
		var x int64
		n, err := fmt.Sscan(str, &x)
		if err != nil {
			return Tuple{MkBV(uint64(n), 64), mkError(t, StrConst(err.Error()))}
		}
		cell.V = MkBV(uint64(x), 64)
		return Tuple{MkBV(uint64(n), 64), (*IfaceVal)(nil)}
	}
	I["fmt.Sprint"] = func(t *Thread, fn *ssa.Function, a []Value) Value {
		sl := a[0].(*SliceVal)
		out := &StrVal{}
		for i := 0; i < sl.Len; i++ {
			out.B = append(out.B, showArg(t, sl.Arr.Elem(sl.Off+i).V, 'v').B...)
		}
		return out
	}
	for _, n := range []string{"fmt.Printf", "fmt.Println", "fmt.Print", "fmt.Fprintf", "fmt.Fprintln", "fmt.Fprint"} {
		I[n] = func(t *Thread, fn *ssa.Function, a []Value) Value {
			noteStub("fmt.Print*/Fprint* (no effect)")
			return Tuple{MkBV(0, 64), (*IfaceVal)(nil)}
		}
	}
	I["errors.Is"] = func(t *Thread, fn *ssa.Function, a []Value) Value {
		e, _ := a[0].(*IfaceVal)
		target, _ := a[1].(*IfaceVal)
		for depth := 0; depth < 8; depth++ {
			if c := eqValue(e, target, nil); c.IsConst() && c.B {
				return TTrue
			} else if !c.IsConst() {
				return c
			}
			if e == nil {
				return TFalse
			}
			ms := t.ex.prog.SSA.MethodSets.MethodSet(e.T)
			sel := ms.Lookup(nil, "Unwrap")
			if sel == nil {
				return TFalse
			}
			m := t.ex.prog.SSA.MethodValue(sel)
			if m == nil || m.Signature.Results().Len() != 1 {
				return TFalse
			}
			r, _ := t.call(m, []Value{e.V}, nil).(*IfaceVal)
			e = r
		}
		return TFalse
	}

	// ---------------- strings / bytes helpers that use assembly or unsafe ----------------
	I["strings.EqualFold"] = func(t *Thread, fn *ssa.Function, a []Value) Value {
		x, y := a[0].(*StrVal), a[1].(*StrVal)
		t.assumeASCII(x)
		t.assumeASCII(y)
		if len(x.B) != len(y.B) {
			return TFalse
		}
		cs := make([]*Term, len(x.B))
		for i := range x.B {
			cs[i] = Eq(lowerByte(x.B[i]), lowerByte(y.B[i]))
		}
		return And(cs...)
	}
	I["strings.ToLower"] = func(t *Thread, fn *ssa.Function, a []Value) Value {
		x := a[0].(*StrVal)
		t.assumeASCII(x)
		out := &StrVal{B: make([]*Term, len(x.B))}
		for i := range x.B {
			out.B[i] = lowerByte(x.B[i])
		}
		return out
	}
	I["strings.ToUpper"] = func(t *Thread, fn *ssa.Function, a []Value) Value {
		x := a[0].(*StrVal)
		t.assumeASCII(x)
		out := &StrVal{B: make([]*Term, len(x.B))}
		for i := range x.B {
			b := x.B[i]
			isLow := And(BVCmp(OpULE, MkBV('a', 8), b), BVCmp(OpULE, b, MkBV('z', 8)))
			out.B[i] = Ite(isLow, BVBin(OpSub, b, MkBV(32, 8)), b)
		}
		return out
	}
	I["strings.Join"] = func(t *Thread, fn *ssa.Function, a []Value) Value {
		sl, sep := a[0].(*SliceVal), a[1].(*StrVal)
		out := &StrVal{}
		for i := 0; i < sl.Len; i++ {
			if i > 0 {
				out.B = append(out.B, sep.B...)
			}
			out.B = append(out.B, sl.Arr.Elem(sl.Off+i).V.(*StrVal).B...)
		}
		return out
	}
	I["strings.Index"] = func(t *Thread, fn *ssa.Function, a []Value) Value {
		return MkBV(uint64(int64(t.strIndex(a[0].(*StrVal), a[1].(*StrVal)))), 64)
	}
	I["strings.Contains"] = func(t *Thread, fn *ssa.Function, a []Value) Value {
		return MkBool(t.strIndex(a[0].(*StrVal), a[1].(*StrVal)) >= 0)
	}
	I["strings.IndexByte"] = func(t *Thread, fn *ssa.Function, a []Value) Value {
		return MkBV(uint64(int64(t.strIndex(a[0].(*StrVal), &StrVal{B: []*Term{a[1].(*Term)}}))), 64)
	}
	I["strings.Split"] = func(t *Thread, fn *ssa.Function, a []Value) Value {
		return t.strSplit(a[0].(*StrVal), a[1].(*StrVal), -1)
	}
	I["strings.SplitN"] = func(t *Thread, fn *ssa.Function, a []Value) Value {
		return t.strSplit(a[0].(*StrVal), a[1].(*StrVal), t.concreteInt(a[2].(*Term), "SplitN n"))
	}
	I["bytes.Equal"] = func(t *Thread, fn *ssa.Function, a []Value) Value {
		x, y := a[0].(*SliceVal), a[1].(*SliceVal)
		return eqValue(&StrVal{B: sliceBytes(x)}, &StrVal{B: sliceBytes(y)}, nil)
	}
	I["bytes.IndexByte"] = func(t *Thread, fn *ssa.Function, a []Value) Value {
		s := &StrVal{B: sliceBytes(a[0].(*SliceVal))}
		return MkBV(uint64(int64(t.strIndex(s, &StrVal{B: []*Term{a[1].(*Term)}}))), 64)
	}
	I["internal/bytealg.IndexByteString"] = I["strings.IndexByte"]
	I["internal/bytealg.IndexByte"] = I["bytes.IndexByte"]
	// CountString(s, c) / Count(b, c): number of bytes equal to c, as one sum term
	countBytes := func(bs []*Term, c *Term) Value {
		sum := MkBV(0, 64)
		for _, b := range bs {
			sum = BVBin(OpAdd, sum, Ite(Eq(b, c), MkBV(1, 64), MkBV(0, 64)))
		}
		return sum
	}
	I["internal/abi.NoEscape"] = func(t *Thread, fn *ssa.Function, a []Value) Value { return a[0] }
	I["internal/bytealg.CountString"] = func(t *Thread, fn *ssa.Function, a []Value) Value {
		return countBytes(a[0].(*StrVal).B, a[1].(*Term))
	}
	I["internal/bytealg.Count"] = func(t *Thread, fn *ssa.Function, a []Value) Value {
		return countBytes(sliceBytes(a[0].(*SliceVal)), a[1].(*Term))
	}
	I["internal/bytealg.MakeNoZero"] = func(t *Thread, fn *ssa.Function, a []Value) Value {
		n := t.concreteLen(a[0].(*Term), "MakeNoZero")
		return &SliceVal{Arr: newArrayCell(types.Typ[types.Byte], n), Len: n, Cap: n}
	}
	I["strconv.Itoa"] = func(t *Thread, fn *ssa.Function, a []Value) Value {
		x := a[0].(*Term)
		if !x.IsConst() {
			noteStub("strconv.Itoa(symbolic) = opaque 1-byte digit string")
			return &StrVal{B: []*Term{t.ex.fresh("itoa", 8)}}
		}
		return StrConst(fmt.Sprint(x.SInt()))
	}

	// ---------------- misc ----------------
	I["github.com/ansible/receptor/pkg/randstr.RandomString"] = func(t *Thread, fn *ssa.Function, a []Value) Value {
		n := t.concreteInt(a[0].(*Term), "RandomString length")
		if q, ok := t.ex.notes["_random"].([]*StrVal); ok && len(q) > 0 {
			t.ex.notes["_random"] = q[1:]
			return q[0]
		}
		noteStub("randstr.RandomString(n) = arbitrary n alphanumeric bytes")
		if n < 0 {
			return &StrVal{}
		}
		bs := t.ex.freshBytes(n, "rnd")
		for _, b := range bs {
			alnum := Or(And(BVCmp(OpULE, MkBV('a', 8), b), BVCmp(OpULE, b, MkBV('z', 8))),
				And(BVCmp(OpULE, MkBV('A', 8), b), BVCmp(OpULE, b, MkBV('Z', 8))),
				And(BVCmp(OpULE, MkBV('0', 8), b), BVCmp(OpULE, b, MkBV('9', 8))))
			t.ex.pc = append(t.ex.pc, alnum)
		}
		return &StrVal{B: bs}
	}
	I["math/rand.Intn"] = func(t *Thread, fn *ssa.Function, a []Value) Value {
		noteStub("math/rand.Intn(n) = arbitrary value in [0,n)")
		v := t.ex.fresh("rand", 64)
		t.ex.pc = append(t.ex.pc, BVCmp(OpULT, v, a[0].(*Term)))
		return v
	}
}

func lowerByte(b *Term) *Term {
	isUp := And(BVCmp(OpULE, MkBV('A', 8), b), BVCmp(OpULE, b, MkBV('Z', 8)))
	return Ite(isUp, BVBin(OpAdd, b, MkBV(32, 8)), b)
}

// assumeASCII restricts symbolic bytes of s to < 0x80 (recorded as outside the claim).
func (t *Thread) assumeASCII(s *StrVal) {
	for _, b := range s.B {
		if b.IsConst() {
			if b.BV >= 0x80 {
				unsupportedf("non-ASCII byte in case-folding string operation")
			}
			continue
		}
		t.ex.H.noteOutside("case folding: bytes >= 0x80 (Unicode folding) are excluded")
		t.ex.assume(BVCmp(OpULT, b, MkBV(0x80, 8)))
	}
}

// strIndex finds the first occurrence of sub in s, forking on symbolic bytes.
func (t *Thread) strIndex(s, sub *StrVal) int {
	n, m := len(s.B), len(sub.B)
	for i := 0; i+m <= n; i++ {
		cs := make([]*Term, m)
		for j := 0; j < m; j++ {
			cs[j] = Eq(s.B[i+j], sub.B[j])
		}
		if t.ex.branch(And(cs...)) {
			return i
		}
	}
	return -1
}

func strSliceOf(parts []*StrVal) *SliceVal {
	arr := newArrayCell(types.Typ[types.String], len(parts))
	for i, p := range parts {
		arr.Elem(i).V = p
	}
	return &SliceVal{Arr: arr, Len: len(parts), Cap: len(parts)}
}

func (t *Thread) strSplit(s, sep *StrVal, n int) Value {
	if len(sep.B) == 0 {
		unsupportedf("strings.Split with empty separator")
	}
	if n == 0 {
		return &SliceVal{}
	}
	var parts []*StrVal
	rest := s
	for n < 0 || len(parts) < n-1 {
		i := t.strIndex(rest, sep)
		if i < 0 {
			break
		}
		parts = append(parts, &StrVal{B: rest.B[:i]})
		rest = &StrVal{B: rest.B[i+len(sep.B):]}
	}
	parts = append(parts, rest)
	return strSliceOf(parts)
}

// showArg renders a value for %v / %s / %d.
func showArg(t *Thread, v Value, verb byte) *StrVal {
	switch x := v.(type) {
	case *IfaceVal:
		if x == nil {
			return StrConst("<nil>")
		}
		// error / Stringer
		if verb == 'v' || verb == 's' {
			ms := t.ex.prog.SSA.MethodSets.MethodSet(x.T)
			for _, mn := range []string{"Error", "String"} {
				if sel := ms.Lookup(nil, mn); sel != nil {
					if m := t.ex.prog.SSA.MethodValue(sel); m != nil && m.Signature.Params().Len() == 0 && m.Signature.Results().Len() == 1 && isString(m.Signature.Results().At(0).Type()) {
						if r, ok := t.tryCall(m, []Value{x.V}); ok {
							return r.(*StrVal)
						}
					}
				}
			}
		}
		return showArg(t, x.V, verb)
	case *StrVal:
		return x
	case *Term:
		if x.IsConst() {
			switch {
			case x.W == WBool:
				return StrConst(fmt.Sprint(x.B))
			case x.W == WReal:
				f, _ := x.Rat.Float64()
				return StrConst(fmt.Sprint(f))
			}
			return StrConst(fmt.Sprint(x.SInt()))
		}
		noteStub("fmt: symbolic number renders as one opaque byte")
		return &StrVal{B: []*Term{t.ex.fresh("fmtnum", 8)}}
	case *SliceVal:
		if x.Arr != nil && typeWidth(x.Arr.T.Underlying().(*types.Array).Elem()) == 8 && verb == 's' {
			return &StrVal{B: sliceBytes(x)}
		}
	}
	if m, ok := v.(*MapObj); ok && m != nil && (verb == 'v' || verb == 's') {
		// map[k:v k:v] - entries whose presence is concrete, in insertion order (Go sorts by key; only membership of
		// the rendered text is meaningful in the model)
		noteStub("fmt: a map renders as map[k:v ...] in insertion order (Go sorts keys)")
		out := &StrVal{B: append([]*Term{}, StrConst("map[").B...)}
		first := true
		for _, e := range m.E {
			if e.P != nil && e.P.IsConst() && !e.P.B {
				continue
			}
			if !first {
				out.B = append(out.B, MkBV(' ', 8))
			}
			first = false
			out.B = append(out.B, showArg(t, e.K, 'v').B...)
			out.B = append(out.B, MkBV(':', 8))
			out.B = append(out.B, showArg(t, e.V, 'v').B...)
		}
		out.B = append(out.B, MkBV(']', 8))
		return out
	}
	noteStub("fmt: composite value renders as \"?\"")
	return StrConst("?")
}

func (t *Thread) tryCall(fn *ssa.Function, args []Value) (res Value, ok bool) {
	defer func() {
		if r := recover(); r != nil {
			if _, isU := r.(*unsupported); isU {
				ok = false
				return
			}
			panic(r)
		}
	}()
	return t.call(fn, args, nil), true
}

func sprintf(t *Thread, format *StrVal, args *SliceVal) *StrVal {
	f, ok := format.Concrete()
	if !ok {
		// non-constant format (e.g. Errorf(msg)): keep the text, ignore verbs
		noteStub("fmt: symbolic format string is copied verbatim")
		return format
	}
	out := &StrVal{}
	ai := 0
	for i := 0; i < len(f); i++ {
		c := f[i]
		if c != '%' {
			out.B = append(out.B, MkBV(uint64(c), 8))
			continue
		}
		i++
		// skip flags/width/precision
		for i < len(f) && strings.ContainsRune("+-# 0123456789.", rune(f[i])) {
			i++
		}
		if i >= len(f) {
			break
		}
		verb := f[i]
		if verb == '%' {
			out.B = append(out.B, MkBV('%', 8))
			continue
		}
		if ai >= args.Len {
			out.B = append(out.B, StrConst("%!"+string(verb)+"(MISSING)").B...)
			continue
		}
		arg := args.Arr.Elem(args.Off + ai).V
		ai++
		out.B = append(out.B, showArg(t, arg, verb).B...)
	}
	return out
}
