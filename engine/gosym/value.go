package gosym

import (
	"fmt"
	"go/types"
	"math/big"

	"golang.org/x/tools/go/ssa"
)

// Value is a run-time value of the symbolic interpreter. Structure (lengths, pointers,
// dynamic types, map shapes) is concrete on each path; scalars are SMT terms.
//
//	*Term       bool / integer / float
//	*StrVal     string (concrete length, symbolic bytes)
//	*Cell       pointer (nil pointer = (*Cell)(nil))
//	*StructVal  struct value
//	*ArrayVal   array value
//	*SliceVal   slice (Arr == nil: nil slice)
//	*MapObj     map reference (nil map = (*MapObj)(nil))
//	*ChanObj    channel reference
//	*IfaceVal   interface value (nil interface = (*IfaceVal)(nil))
//	*FuncVal    function / closure
//	Tuple       multiple results
type Value interface{}

type StrVal struct{ B []*Term }

type Cell struct {
	T   types.Type
	V   Value
	Sub []*Cell
	N   int
	ID  int
	// Tag is engine metadata attached to an object (mutex state etc.)
	Tag interface{}
	// Up/UpIdx: the array cell this element cell belongs to (for unsafe.String on &b[0])
	Up    *Cell
	UpIdx int
}

type StructVal struct{ F []Value }
type ArrayVal struct{ E []Value }
type SliceVal struct {
	Arr           *Cell
	Off, Len, Cap int
}
type MapEntry struct {
	K Value
	P *Term
	V Value
}
type MapObj struct {
	KT, VT types.Type
	E      []*MapEntry
	ID     int
}
type IfaceVal struct {
	T types.Type
	V Value
}
type FuncVal struct {
	Fn  *ssa.Function
	Env []Value
	Bi  *ssa.Builtin
}
type Tuple []Value

type RangeIter struct {
	M   *MapObj
	S   *StrVal
	Idx int
}

func StrConst(s string) *StrVal {
	b := make([]*Term, len(s))
	for i := 0; i < len(s); i++ {
		b[i] = MkBV(uint64(s[i]), 8)
	}
	return &StrVal{B: b}
}

// Concrete returns the Go string if every byte is constant.
func (s *StrVal) Concrete() (string, bool) {
	bs := make([]byte, len(s.B))
	for i, t := range s.B {
		if !t.IsConst() {
			return "", false
		}
		bs[i] = byte(t.BV)
	}
	return string(bs), true
}

func (s *StrVal) Show() string {
	out := ""
	for _, t := range s.B {
		if t.IsConst() {
			c := byte(t.BV)
			if c >= 32 && c < 127 {
				out += string(c)
			} else {
				out += fmt.Sprintf("\\x%02x", c)
			}
		} else {
			out += "?"
		}
	}
	return out
}

func basicWidth(b *types.Basic) int {
	switch b.Kind() {
	case types.Bool, types.UntypedBool:
		return WBool
	case types.Int8, types.Uint8:
		return 8
	case types.Int16, types.Uint16:
		return 16
	case types.Int32, types.Uint32, types.UntypedRune:
		return 32
	case types.Int, types.Uint, types.Int64, types.Uint64, types.Uintptr, types.UntypedInt:
		return 64
	case types.Float32, types.Float64, types.UntypedFloat:
		return WReal
	}
	return -99
}

func isSigned(t types.Type) bool {
	if b, ok := t.Underlying().(*types.Basic); ok {
		return b.Info()&types.IsUnsigned == 0 && b.Info()&types.IsInteger != 0
	}
	return false
}

func isInteger(t types.Type) bool {
	if b, ok := t.Underlying().(*types.Basic); ok {
		return b.Info()&types.IsInteger != 0
	}
	return false
}

func isFloat(t types.Type) bool {
	if b, ok := t.Underlying().(*types.Basic); ok {
		return b.Info()&types.IsFloat != 0
	}
	return false
}

func isString(t types.Type) bool {
	if b, ok := t.Underlying().(*types.Basic); ok {
		return b.Info()&types.IsString != 0
	}
	return false
}

func isBoolT(t types.Type) bool {
	if b, ok := t.Underlying().(*types.Basic); ok {
		return b.Info()&types.IsBoolean != 0
	}
	return false
}

func typeWidth(t types.Type) int {
	if b, ok := t.Underlying().(*types.Basic); ok {
		return basicWidth(b)
	}
	return -99
}

type unsupported struct{ msg string }

func unsupportedf(f string, a ...interface{}) { panic(&unsupported{fmt.Sprintf(f, a...)}) }

var cellCounter int

func zeroValue(t types.Type) Value {
	switch u := t.Underlying().(type) {
	case *types.Basic:
		switch {
		case u.Info()&types.IsBoolean != 0:
			return TFalse
		case u.Info()&types.IsInteger != 0:
			return MkBV(0, basicWidth(u))
		case u.Info()&types.IsFloat != 0:
			return MkReal(new(big.Rat))
		case u.Info()&types.IsString != 0:
			return &StrVal{}
		case u.Kind() == types.UnsafePointer:
			return (*Cell)(nil)
		case u.Kind() == types.UntypedNil:
			return nil
		}
		unsupportedf("zero value of basic type %s", t)
	case *types.Pointer:
		return (*Cell)(nil)
	case *types.Slice:
		return &SliceVal{}
	case *types.Map:
		return (*MapObj)(nil)
	case *types.Chan:
		return (*ChanObj)(nil)
	case *types.Interface:
		return (*IfaceVal)(nil)
	case *types.Signature:
		return (*FuncVal)(nil)
	case *types.Struct:
		s := &StructVal{F: make([]Value, u.NumFields())}
		for i := range s.F {
			s.F[i] = zeroValue(u.Field(i).Type())
		}
		return s
	case *types.Array:
		a := &ArrayVal{E: make([]Value, int(u.Len()))}
		for i := range a.E {
			a.E[i] = zeroValue(u.Elem())
		}
		return a
	case *types.Tuple:
		tu := make(Tuple, u.Len())
		for i := range tu {
			tu[i] = zeroValue(u.At(i).Type())
		}
		return tu
	case *types.TypeParam:
		unsupportedf("zero value of type parameter %s", t)
	}
	unsupportedf("zero value of %s", t)
	return nil
}

func newCell(t types.Type) *Cell {
	c := &Cell{T: t}
	switch u := t.Underlying().(type) {
	case *types.Struct:
		c.Sub = make([]*Cell, u.NumFields())
		for i := range c.Sub {
			c.Sub[i] = newCell(u.Field(i).Type())
		}
	case *types.Array:
		c.N = int(u.Len())
		c.Sub = make([]*Cell, c.N)
	default:
		c.V = zeroValue(t)
	}
	return c
}

// newArrayCell allocates a backing array of n elements of type et.
func newArrayCell(et types.Type, n int) *Cell {
	return &Cell{T: types.NewArray(et, int64(n)), N: n, Sub: make([]*Cell, n)}
}

func (c *Cell) isArray() bool {
	_, ok := c.T.Underlying().(*types.Array)
	return ok
}

func (c *Cell) Elem(i int) *Cell {
	if i < 0 || i >= c.N {
		panic(fmt.Sprintf("engine: Elem index %d out of %d", i, c.N))
	}
	if c.Sub[i] == nil {
		c.Sub[i] = newCell(c.T.Underlying().(*types.Array).Elem())
		c.Sub[i].Up, c.Sub[i].UpIdx = c, i
	}
	return c.Sub[i]
}

func (c *Cell) Load() Value {
	switch c.T.Underlying().(type) {
	case *types.Struct:
		s := &StructVal{F: make([]Value, len(c.Sub))}
		for i, sc := range c.Sub {
			s.F[i] = sc.Load()
		}
		return s
	case *types.Array:
		a := &ArrayVal{E: make([]Value, c.N)}
		for i := 0; i < c.N; i++ {
			a.E[i] = c.Elem(i).Load()
		}
		return a
	}
	return c.V
}

func (c *Cell) Store(v Value) {
	switch c.T.Underlying().(type) {
	case *types.Struct:
		s := v.(*StructVal)
		for i, sc := range c.Sub {
			sc.Store(s.F[i])
		}
		return
	case *types.Array:
		a := v.(*ArrayVal)
		for i := 0; i < c.N; i++ {
			c.Elem(i).Store(a.E[i])
		}
		return
	}
	c.V = v
}

func isNilValue(v Value) bool {
	switch x := v.(type) {
	case nil:
		return true
	case *Cell:
		return x == nil
	case *MapObj:
		return x == nil
	case *ChanObj:
		return x == nil
	case *IfaceVal:
		return x == nil
	case *FuncVal:
		return x == nil
	case *SliceVal:
		return x.Arr == nil
	}
	return false
}

// eqValue builds the term for Go's == on two values of static type t.
func eqValue(a, b Value, t types.Type) *Term {
	switch x := a.(type) {
	case *Term:
		y := b.(*Term)
		return Eq(x, y)
	case *StrVal:
		y := b.(*StrVal)
		if len(x.B) != len(y.B) {
			return TFalse
		}
		cs := make([]*Term, len(x.B))
		for i := range x.B {
			cs[i] = Eq(x.B[i], y.B[i])
		}
		return And(cs...)
	case *Cell:
		return MkBool(x == b.(*Cell))
	case *MapObj:
		return MkBool(x == b.(*MapObj))
	case *ChanObj:
		return MkBool(x == b.(*ChanObj))
	case *FuncVal:
		y, _ := b.(*FuncVal)
		return MkBool(x == nil && y == nil)
	case *SliceVal:
		y := b.(*SliceVal)
		return MkBool(x.Arr == nil && y.Arr == nil)
	case *IfaceVal:
		y, _ := b.(*IfaceVal)
		if x == nil || y == nil {
			return MkBool(x == nil && y == nil)
		}
		if !types.Identical(x.T, y.T) {
			return TFalse
		}
		return eqValue(x.V, y.V, x.T)
	case *StructVal:
		y := b.(*StructVal)
		st := t.Underlying().(*types.Struct)
		cs := make([]*Term, len(x.F))
		for i := range x.F {
			cs[i] = eqValue(x.F[i], y.F[i], st.Field(i).Type())
		}
		return And(cs...)
	case *ArrayVal:
		y := b.(*ArrayVal)
		et := t.Underlying().(*types.Array).Elem()
		cs := make([]*Term, len(x.E))
		for i := range x.E {
			cs[i] = eqValue(x.E[i], y.E[i], et)
		}
		return And(cs...)
	case *RTypeVal:
		y, ok := b.(*RTypeVal)
		return MkBool(ok && types.Identical(x.T, y.T))
	case nil:
		return MkBool(isNilValue(b))
	}
	unsupportedf("eqValue on %T", a)
	return nil
}

// iteValue merges two values under a condition when both are "scalar-like"; ok=false otherwise.
func iteValue(c *Term, a, b Value) (Value, bool) {
	if c.IsConst() {
		if c.B {
			return a, true
		}
		return b, true
	}
	switch x := a.(type) {
	case *Term:
		y, ok := b.(*Term)
		if !ok || x.W != y.W {
			return nil, false
		}
		return Ite(c, x, y), true
	case *StrVal:
		y, ok := b.(*StrVal)
		if !ok || len(x.B) != len(y.B) {
			return nil, false
		}
		out := &StrVal{B: make([]*Term, len(x.B))}
		for i := range x.B {
			out.B[i] = Ite(c, x.B[i], y.B[i])
		}
		return out, true
	case *StructVal:
		y, ok := b.(*StructVal)
		if !ok || len(x.F) != len(y.F) {
			return nil, false
		}
		out := &StructVal{F: make([]Value, len(x.F))}
		for i := range x.F {
			v, ok := iteValue(c, x.F[i], y.F[i])
			if !ok {
				return nil, false
			}
			out.F[i] = v
		}
		return out, true
	case *Cell:
		if y, ok := b.(*Cell); ok && x == y {
			return a, true
		}
	case *MapObj:
		if y, ok := b.(*MapObj); ok && x == y {
			return a, true
		}
	case *IfaceVal:
		y, ok := b.(*IfaceVal)
		if ok && x == nil && y == nil {
			return a, true
		}
		if ok && x != nil && y != nil && types.Identical(x.T, y.T) {
			v, ok := iteValue(c, x.V, y.V)
			if ok {
				return &IfaceVal{T: x.T, V: v}, true
			}
		}
	}
	return nil, false
}
