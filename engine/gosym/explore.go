package gosym

import (
	"fmt"
	"go/constant"
	"math/big"
	"os"
	"sort"
	"strings"
	"sync"
	"time"

	"golang.org/x/tools/go/ssa"
)

type Options struct {
	MaxDecisions  int
	MaxConcretize int
	MaxPaths      int
	MaxInstrs     int
	MaxDepth      int
	MaxAlloc      int
	Unwind        int
	RunAfterMain  bool
	SolverTimeout int
	Solver        string
	Workers       int
	MaxViolations int
}

func DefaultOptions() Options {
	return Options{MaxDecisions: 4000, MaxConcretize: 70, MaxPaths: 200000, MaxInstrs: 3000000, MaxDepth: 150,
		MaxAlloc: 70000, Unwind: 100000, SolverTimeout: 20000, Workers: 16, MaxViolations: 1, RunAfterMain: false}
}

// KnownEntry is one line of known_findings.json with status "known".
type KnownEntry struct {
	Status    string `json:"status"`
	Property  string `json:"property"`
	Harness   string `json:"harness"`
	Assertion string `json:"assertion"`
	Tag       string `json:"tag"`
	What      string `json:"what"`
	Commit    string `json:"commit,omitempty"`
}

type Run struct {
	Prog  *Program
	Opt   Options
	Known []KnownEntry
	mu    sync.Mutex
	cond  *sync.Cond
	hs    []*HarnessRun
	act   int
	Tier  string
	SolverStats
}

func (r *Run) isListedKnown(harness, assertion, tag string) bool {
	for _, k := range r.Known {
		if k.Status == "known" && k.Harness == harness && k.Tag == tag && (k.Assertion == assertion || k.Assertion == "*") {
			return true
		}
	}
	return false
}

type Sample struct {
	Harness    string `json:"harness"`
	Obligation string `json:"obligation"`
	Verdict    string `json:"verdict"`
	PCLen      int    `json:"path_condition_conjuncts"`
}

type KnownHit struct {
	Harness string        `json:"harness"`
	Name    string        `json:"assertion"`
	Tags    []string      `json:"tags"`
	Inputs  []interface{} `json:"inputs"`
}

// HarnessRun aggregates the exploration of one harness.
type HarnessRun struct {
	Run    *Run
	Name   string
	Fn     *ssa.Function
	Opt    Options
	mu     sync.Mutex
	work   [][]Dec
	active int

	Paths        int            `json:"paths"`
	Ends         map[string]int `json:"path_ends"`
	Instrs       int            `json:"instructions"`
	obligations  int
	discharged   int
	Violations   []*Violation `json:"violations"`
	vioCount     map[string]int
	KnownHits    []*KnownHit    `json:"known_hits"`
	Covers       map[string]int `json:"covers"`
	Inconclusive []string       `json:"inconclusive"`
	Unsupported  []string       `json:"unsupported"`
	Outside      []string       `json:"outside_claim"`
	Hazards      []string
	feasUnknown  int
	Samples      []Sample `json:"samples"`
	Funcs        map[string]bool
	Assumes      map[string]bool
	Notes        map[string]interface{}
	MaxPC        int
	WallS        float64
	Witnesses    [][]interface{}
	start        time.Time
	aborted      bool
}

func (h *HarnessRun) push(p []Dec) {
	h.mu.Lock()
	h.work = append(h.work, p)
	h.mu.Unlock()
	h.Run.mu.Lock()
	h.Run.cond.Broadcast()
	h.Run.mu.Unlock()
}

func addUnique(l *[]string, s string) {
	for _, x := range *l {
		if x == s {
			return
		}
	}
	if len(*l) < 40 {
		*l = append(*l, s)
	}
}

func (h *HarnessRun) noteInconclusive(s string) {
	h.mu.Lock()
	addUnique(&h.Inconclusive, s)
	h.mu.Unlock()
}
func (h *HarnessRun) noteUnsupported(s string) {
	h.mu.Lock()
	addUnique(&h.Unsupported, s)
	h.aborted = true
	h.work = nil
	h.mu.Unlock()
}
func (h *HarnessRun) noteHazard(s string) {
	h.mu.Lock()
	addUnique(&h.Hazards, s)
	h.mu.Unlock()
}
func (h *HarnessRun) noteOutside(s string) {
	h.mu.Lock()
	addUnique(&h.Outside, s)
	h.mu.Unlock()
}

func (h *HarnessRun) incObl() { h.mu.Lock(); h.obligations++; h.mu.Unlock() }
func (h *HarnessRun) incDis() { h.mu.Lock(); h.discharged++; h.mu.Unlock() }
func (h *HarnessRun) incFU()  { h.mu.Lock(); h.feasUnknown++; h.mu.Unlock() }

func (h *HarnessRun) sample(name, verdict string) {
	h.mu.Lock()
	if len(h.Samples) < 6 {
		h.Samples = append(h.Samples, Sample{Harness: h.Name, Obligation: name, Verdict: verdict})
	}
	h.mu.Unlock()
}

func ratFloat(r *big.Rat) float64 { f, _ := r.Float64(); return f }

// modelInputs concretises the harness inputs under a model (call order).
func (ex *Exec) modelInputs(m *Model) []interface{} {
	var out []interface{}
	for _, in := range ex.inputs {
		rec := map[string]interface{}{"kind": in.Kind}
		switch in.Kind {
		case "choose", "len":
			rec["v"] = in.N
		case "bytes", "string":
			bs := make([]int, len(in.Terms))
			for i, t := range in.Terms {
				bs[i] = int(Eval(t, m).BV)
			}
			rec["v"] = bs
		case "float":
			v := Eval(in.Terms[0], m)
			rec["v"] = ratFloat(v.Rat)
			rec["rat"] = v.Rat.String()
		case "bool":
			rec["v"] = Eval(in.Terms[0], m).B
		default:
			v := Eval(in.Terms[0], m)
			rec["v"] = fmt.Sprintf("%d", v.BV)
			if in.Kind == "i64" || in.Kind == "int" {
				rec["v"] = fmt.Sprintf("%d", v.SInt())
			}
		}
		out = append(out, rec)
	}
	return out
}

func (h *HarnessRun) recordViolation(ex *Exec, name, msg string, m *Model) {
	h.mu.Lock()
	defer h.mu.Unlock()
	h.vioCount[name]++
	if h.vioCount[name] > h.Opt.MaxViolations {
		return
	}
	v := &Violation{Harness: h.Name, Name: name, Msg: msg, Inputs: ex.modelInputs(m), Decisions: len(ex.trace), Schedule: append([]string{}, ex.sched...)}
	for _, k := range ex.knowns {
		if c := Eval(k.cond, m); c.IsConst() && c.B {
			v.KnownTags = append(v.KnownTags, k.tag)
		}
	}
	h.Violations = append(h.Violations, v)
}

// recordViolationPC records a violation that holds on the whole current path (panic, deadlock...).
func (h *HarnessRun) recordViolationPC(ex *Exec, name, msg string) {
	kd := ex.knownDisj(name)
	r, m := ex.check(Not(kd), true)
	switch r {
	case Sat:
		h.recordViolation(ex, name, msg, m)
	case Unsat:
		r2, m2 := ex.check(nil, true)
		if r2 == Sat {
			h.recordKnown(ex, name, m2)
		} else {
			h.noteInconclusive("solver unknown on path model for " + name)
		}
	default:
		h.noteInconclusive("solver unknown on path model for " + name)
	}
}

func (h *HarnessRun) recordKnown(ex *Exec, name string, m *Model) {
	h.mu.Lock()
	defer h.mu.Unlock()
	var tags []string
	for _, k := range ex.knowns {
		if c := Eval(k.cond, m); c.IsConst() && c.B && h.Run.isListedKnown(h.Name, name, k.tag) {
			tags = append(tags, k.tag)
		}
	}
	for _, kh := range h.KnownHits {
		if kh.Name == name && strings.Join(kh.Tags, ",") == strings.Join(tags, ",") {
			return
		}
	}
	h.KnownHits = append(h.KnownHits, &KnownHit{Harness: h.Name, Name: name, Tags: tags, Inputs: ex.modelInputs(m)})
}

func (h *HarnessRun) recordPanic(ex *Exec, p *goPanic, t *Thread) {
	h.mu.Lock()
	h.obligations++
	h.mu.Unlock()
	msg := p.msg
	if msg == "" {
		iv, _ := p.val.(*IfaceVal)
		msg = "panic: " + ex.showPanicVal(iv)
	}
	h.recordViolationPC(ex, "no-panic", fmt.Sprintf("%s (goroutine %d %s)", msg, t.ID, t.what))
}

func (h *HarnessRun) recordDeadlock(ex *Exec) {
	h.mu.Lock()
	h.obligations++
	h.mu.Unlock()
	h.recordViolationPC(ex, "no-deadlock", "all goroutines blocked: "+ex.describeThreads())
}

func (h *HarnessRun) recordLockViolation(ex *Exec, name, msg string) {
	h.mu.Lock()
	h.obligations++
	h.mu.Unlock()
	h.recordViolationPC(ex, name, msg)
}

func (h *HarnessRun) finishPath(ex *Exec, end string) {
	h.mu.Lock()
	defer h.mu.Unlock()
	h.Paths++
	h.Ends[end]++
	h.Instrs += ex.instrs
	if len(ex.pc) > h.MaxPC {
		h.MaxPC = len(ex.pc)
	}
	for f := range ex.funcs {
		h.Funcs[f] = true
	}
	for k, v := range ex.notes {
		if !strings.HasPrefix(k, "_") {
			h.Notes[k] = v
		}
	}
	if end == "done" && len(h.Witnesses) < 4 && ex.pos >= len(ex.prefix) {
		if r, m := ex.check(nil, true); r == Sat {
			h.Witnesses = append(h.Witnesses, ex.modelInputs(m))
		}
	}
	for i := range h.Samples {
		if h.Samples[i].PCLen == 0 {
			h.Samples[i].PCLen = len(ex.pc)
		}
	}
}

// Explore runs all harnesses with a pool of workers.
func (r *Run) Explore(fns []*ssa.Function) []*HarnessRun {
	r.cond = sync.NewCond(&r.mu)
	for _, fn := range fns {
		h := &HarnessRun{Run: r, Name: fn.Name(), Fn: fn, Opt: r.Opt, Ends: map[string]int{}, vioCount: map[string]int{},
			Covers: map[string]int{}, Funcs: map[string]bool{}, Assumes: map[string]bool{}, Notes: map[string]interface{}{}, start: time.Now()}
		h.work = [][]Dec{nil}
		r.hs = append(r.hs, h)
	}
	var wg sync.WaitGroup
	if os.Getenv("GOSYM_PROGRESS") != "" {
		stop := make(chan struct{})
		defer close(stop)
		go func() {
			for {
				select {
				case <-stop:
					return
				case <-time.After(10 * time.Second):
					for _, h := range r.hs {
						h.mu.Lock()
						fmt.Fprintf(os.Stderr, "[progress] %s paths=%d pending=%d active=%d ends=%v\n", h.Name, h.Paths, len(h.work), h.active, h.Ends)
						h.mu.Unlock()
					}
				}
			}
		}()
	}
	stats := make([]*Solver, r.Opt.Workers)
	for w := 0; w < r.Opt.Workers; w++ {
		wg.Add(1)
		go func(w int) {
			defer wg.Done()
			s, err := NewSolver(r.Opt.Solver, r.Opt.SolverTimeout)
			if err != nil {
				panic(err)
			}
			stats[w] = s
			defer s.Close()
			for {
				h, prefix := r.nextWork()
				if h == nil {
					return
				}
				ex := newExec(h, prefix, s)
				end := ex.runPath(h.Fn)
				h.finishPath(ex, end)
				if len(s.Errors) > 0 {
					h.noteInconclusive("solver error: " + s.Errors[0])
				}
				r.mu.Lock()
				h.active--
				r.act--
				if h.active == 0 && len(h.work) == 0 {
					h.WallS = time.Since(h.start).Seconds()
				}
				r.cond.Broadcast()
				r.mu.Unlock()
			}
		}(w)
	}
	wg.Wait()
	for _, s := range stats {
		if s != nil {
			r.SolverQueries += s.Queries
			r.SolverSat += s.NSat
			r.SolverUnsat += s.NUnsat
			r.SolverUnknown += s.NUnk
			r.SolverFallbacks += s.Fallbacks
			r.SolverTime += s.Time
		}
	}
	return r.hs
}

func (r *Run) nextWork() (*HarnessRun, []Dec) {
	r.mu.Lock()
	defer r.mu.Unlock()
	for {
		for _, h := range r.hs {
			h.mu.Lock()
			if len(h.work) > 0 && !h.aborted {
				if h.Paths+h.active >= h.Opt.MaxPaths {
					h.aborted = true
					addUnique(&h.Inconclusive, fmt.Sprintf("path bound %d exceeded", h.Opt.MaxPaths))
					h.work = nil
					h.mu.Unlock()
					continue
				}
				p := h.work[len(h.work)-1]
				h.work = h.work[:len(h.work)-1]
				h.active++
				r.act++
				h.mu.Unlock()
				return h, p
			}
			h.mu.Unlock()
		}
		if r.act == 0 {
			return nil, nil
		}
		r.cond.Wait()
	}
}

func newExec(h *HarnessRun, prefix []Dec, s *Solver) *Exec {
	ex := &Exec{H: h, prog: h.Run.Prog, solver: s, prefix: prefix, yieldCh: make(chan *yieldEv),
		globals: map[*ssa.Global]*Cell{}, initDone: map[*ssa.Package]bool{}, unwind: h.Opt.Unwind,
		blobs: map[string]blob{}, redirect: h.Run.redirects(), dynRedirect: map[string]*FuncVal{}, selFork: true, funcs: map[string]bool{}, notes: map[string]interface{}{}}
	return ex
}

var redirectNames = map[string]string{}

// RegisterRedirect maps a real function (by ssa name) to a verifapi model function name.
func RegisterRedirect(real, model string) { redirectNames[real] = model }

var redirCache map[string]*ssa.Function
var redirOnce sync.Once

func (r *Run) redirects() map[string]*ssa.Function {
	redirOnce.Do(func() {
		redirCache = map[string]*ssa.Function{}
		api := r.Prog.SSA.ImportedPackage(VerifAPIPath)
		if api == nil {
			return
		}
		for real, model := range redirectNames {
			if f := api.Func(model); f != nil {
				redirCache[real] = f
			}
		}
	})
	return redirCache
}

// aggregated solver statistics
type SolverStats struct {
	SolverQueries, SolverSat, SolverUnsat, SolverUnknown, SolverFallbacks int
	SolverTime                                            time.Duration
}

// HarnessSummary is the JSON form of a HarnessRun.
type HarnessSummary struct {
	Name         string                 `json:"harness"`
	Paths        int                    `json:"paths"`
	Ends         map[string]int         `json:"path_ends"`
	Instrs       int                    `json:"instructions"`
	Obligations  int                    `json:"obligations"`
	Discharged   int                    `json:"discharged"`
	Violations   []*Violation           `json:"violations"`
	KnownHits    []*KnownHit            `json:"known_hits"`
	Covers       map[string]int         `json:"covers"`
	Inconclusive []string               `json:"inconclusive"`
	Unsupported  []string               `json:"unsupported"`
	Outside      []string               `json:"outside_claim"`
	Hazards      []string               `json:"hazards"`
	FeasUnknown  int                    `json:"feasibility_unknown"`
	Samples      []Sample               `json:"samples"`
	Funcs        []string               `json:"functions_encoded"`
	Notes        map[string]interface{} `json:"notes"`
	MaxPC        int                    `json:"max_path_condition"`
	Witnesses    [][]interface{}        `json:"witnesses"`
	CoversDecl   []string               `json:"covers_declared"`
	WallS        float64                `json:"wall_s"`
}

func (h *HarnessRun) Summary() *HarnessSummary {
	var fs []string
	for f := range h.Funcs {
		fs = append(fs, f)
	}
	sort.Strings(fs)
	if h.WallS == 0 {
		h.WallS = time.Since(h.start).Seconds()
	}
	return &HarnessSummary{Name: h.Name, Paths: h.Paths, Ends: h.Ends, Instrs: h.Instrs, Obligations: h.obligations,
		Discharged: h.discharged, Violations: h.Violations, KnownHits: h.KnownHits, Covers: h.Covers,
		Inconclusive: h.Inconclusive, Unsupported: h.Unsupported, Outside: h.Outside, Hazards: h.Hazards, FeasUnknown: h.feasUnknown,
		Samples: h.Samples, Funcs: fs, Notes: h.Notes, MaxPC: h.MaxPC, WallS: h.WallS, Witnesses: h.Witnesses,
		CoversDecl: declaredCovers(h.Fn)}
}

// declaredCovers lists the constant names passed to verifapi.Cover by the harness and the
// repository-local functions it (transitively) references in the same package.
func declaredCovers(fn *ssa.Function) []string {
	seen := map[*ssa.Function]bool{}
	names := map[string]bool{}
	var walk func(f *ssa.Function)
	walk = func(f *ssa.Function) {
		if f == nil || seen[f] || len(seen) > 400 {
			return
		}
		seen[f] = true
		for _, b := range f.Blocks {
			for _, in := range b.Instrs {
				var cc *ssa.CallCommon
				switch i := in.(type) {
				case *ssa.Call:
					cc = &i.Call
				case *ssa.Go:
					cc = &i.Call
				case *ssa.Defer:
					cc = &i.Call
				case *ssa.MakeClosure:
					if g, ok := i.Fn.(*ssa.Function); ok {
						walk(g)
					}
				}
				if cc == nil {
					continue
				}
				if callee := cc.StaticCallee(); callee != nil {
					if callee.String() == VerifAPIPath+".Cover" {
						if c, ok := cc.Args[0].(*ssa.Const); ok {
							names[constant.StringVal(c.Value)] = true
						}
					} else if callee.Pkg == fn.Pkg && strings.HasPrefix(callee.Name(), "verif") {
						walk(callee)
					}
				}
			}
		}
		for _, af := range f.AnonFuncs {
			walk(af)
		}
	}
	walk(fn)
	var out []string
	for n := range names {
		out = append(out, n)
	}
	sort.Strings(out)
	return out
}
