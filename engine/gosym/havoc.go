package gosym

import (
	"go/types"

	"golang.org/x/tools/go/ssa"
)

// Havoc: type-directed arbitrary value. The traversal (and therefore the order of recorded inputs)
// mirrors verifapi.Havoc's native reflection walk exactly.

type havocBounds struct{ str, slice, mapN, depth int }

func (ex *Exec) hb() havocBounds {
	if b, ok := ex.notes["_havoc"].(havocBounds); ok {
		return b
	}
	return havocBounds{1, 1, 2, 4}
}

func (t *Thread) hChoose(n int) int {
	k := t.ex.choose(n)
	t.ex.inputs = append(t.ex.inputs, InputRec{Kind: "choose", N: k})
	return k
}

func (t *Thread) hString(max int) *StrVal {
	n := t.hChoose(max + 1)
	bs := t.ex.freshBytes(n, "in_s")
	t.ex.input("string", bs...)
	return &StrVal{B: bs}
}

func (t *Thread) havoc(ty types.Type, depth int) Value {
	ex := t.ex
	b := ex.hb()
	if isNamed(ty, "time", "Time") {
		v := ex.fresh("in_i", 64)
		ex.input("i64", v)
		return &StructVal{F: []Value{MkBV(0, 64), v, (*Cell)(nil)}}
	}
	switch u := ty.Underlying().(type) {
	case *types.Basic:
		switch {
		case u.Info()&types.IsBoolean != 0:
			v := ex.fresh("in_p", WBool)
			ex.input("bool", v)
			return v
		case u.Info()&types.IsInteger != 0:
			w := basicWidth(u)
			if u.Info()&types.IsUnsigned != 0 {
				v := ex.fresh("in_u", 64)
				ex.input("u64", v)
				return Extract(v, w-1, 0)
			}
			v := ex.fresh("in_i", 64)
			ex.input("i64", v)
			return Extract(v, w-1, 0)
		case u.Info()&types.IsFloat != 0:
			v := ex.fresh("in_f", WReal)
			ex.input("float", v)
			return v
		case u.Info()&types.IsString != 0:
			return t.hString(b.str)
		}
		return zeroValue(ty)
	case *types.Pointer:
		if depth >= b.depth {
			return (*Cell)(nil)
		}
		if t.hChoose(2) == 0 {
			return (*Cell)(nil)
		}
		c := newCell(u.Elem())
		c.Store(t.havoc(u.Elem(), depth+1))
		return c
	case *types.Struct:
		s := &StructVal{F: make([]Value, u.NumFields())}
		for i := range s.F {
			f := u.Field(i)
			if !f.Exported() {
				s.F[i] = zeroValue(f.Type())
				continue
			}
			s.F[i] = t.havoc(f.Type(), depth+1)
		}
		return s
	case *types.Slice:
		if depth >= b.depth {
			return &SliceVal{}
		}
		if typeWidth(u.Elem()) == 8 {
			n := t.hChoose(b.slice + 2) // 0 = nil, k+1 = length k
			if n == 0 {
				return &SliceVal{}
			}
			bs := ex.freshBytes(n-1, "in_y")
			ex.input("bytes", bs...)
			return byteSliceOf(bs)
		}
		n := t.hChoose(b.slice + 2)
		if n == 0 {
			return &SliceVal{}
		}
		arr := newArrayCell(u.Elem(), n-1)
		for i := 0; i < n-1; i++ {
			arr.Elem(i).Store(t.havoc(u.Elem(), depth+1))
		}
		return &SliceVal{Arr: arr, Len: n - 1, Cap: n - 1}
	case *types.Map:
		if depth >= b.depth {
			return (*MapObj)(nil)
		}
		if t.hChoose(2) == 0 {
			return (*MapObj)(nil)
		}
		ex.objN++
		m := &MapObj{KT: u.Key(), VT: u.Elem(), ID: ex.objN}
		for i := 0; i < b.mapN; i++ {
			p := ex.fresh("in_p", WBool)
			ex.input("bool", p)
			k := t.havoc(u.Key(), depth+1)
			v := t.havoc(u.Elem(), depth+1)
			for _, e := range m.E {
				ex.assume(Not(And(e.P, p, eqValue(e.K, k, m.KT))))
			}
			m.E = append(m.E, &MapEntry{K: k, P: p, V: v})
		}
		return m
	case *types.Interface:
		if u.NumMethods() != 0 || depth >= b.depth {
			return (*IfaceVal)(nil)
		}
		switch t.hChoose(6) {
		case 0:
			return (*IfaceVal)(nil)
		case 1:
			return &IfaceVal{T: tBoolTyp, V: t.havoc(tBoolTyp, depth+1)}
		case 2:
			return &IfaceVal{T: tFloat64, V: t.havoc(tFloat64, depth+1)}
		case 3:
			return &IfaceVal{T: tStringTyp, V: t.havoc(tStringTyp, depth+1)}
		case 4:
			return &IfaceVal{T: tSliceAny, V: t.havoc(tSliceAny, depth+1)}
		default:
			return &IfaceVal{T: tMapAny, V: t.havoc(tMapAny, depth+1)}
		}
	case *types.Array:
		a := &ArrayVal{E: make([]Value, int(u.Len()))}
		for i := range a.E {
			a.E[i] = t.havoc(u.Elem(), depth+1)
		}
		return a
	}
	return zeroValue(ty)
}

func init() {
	intrinsics[apiP+"Havoc"] = func(t *Thread, fn *ssa.Function, a []Value) Value {
		iv, _ := a[0].(*IfaceVal)
		if iv == nil {
			unsupportedf("Havoc(nil)")
		}
		p, ok := iv.T.Underlying().(*types.Pointer)
		c, _ := iv.V.(*Cell)
		if !ok || c == nil {
			unsupportedf("Havoc needs a non-nil pointer")
		}
		c.Store(t.havoc(p.Elem(), 0))
		return nil
	}
	intrinsics[apiP+"HavocBounds"] = func(t *Thread, fn *ssa.Function, a []Value) Value {
		t.ex.notes["_havoc"] = havocBounds{t.concreteInt(a[0].(*Term), "b"), t.concreteInt(a[1].(*Term), "b"),
			t.concreteInt(a[2].(*Term), "b"), t.concreteInt(a[3].(*Term), "b")}
		return nil
	}
	intrinsics[apiP+"HeldLocks"] = func(t *Thread, fn *ssa.Function, a []Value) Value {
		n := 0
		for _, m := range t.ex.allMutexes {
			if m.writer != nil || len(m.readers) > 0 {
				n++
			}
		}
		return MkBV(uint64(n), 64)
	}
}
