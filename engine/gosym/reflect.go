package gosym

import (
	"fmt"
	"go/types"

	"golang.org/x/tools/go/ssa"
)

// Model of reflect.Value for the handful of operations the repository uses
// (firewall rule parsing: ValueOf/Kind/MapKeys/MapIndex/Elem/String/Interface;
// workceptor status conversion: ValueOf/Type/NumField/Field/Interface, Type.Field(i).Name).
//
// A reflect.Value is the SSA struct {typ_, ptr, flag}; the engine stores an *RVal in field 0.

type RVal struct {
	T types.Type // static type of the value held (interface types are kept, as reflect does for map elements)
	V Value
}

func mkRValue(t *Thread, rv *RVal) Value {
	noteStub("reflect.Value = engine model (ValueOf, Kind, MapKeys, MapIndex, Elem, String, Interface, Type, NumField, Field)")
	return &StructVal{F: []Value{rv, (*Cell)(nil), MkBV(0, 64)}}
}

func rvalOf(v Value) *RVal {
	sv, ok := v.(*StructVal)
	if !ok || len(sv.F) == 0 {
		return nil
	}
	rv, _ := sv.F[0].(*RVal)
	return rv
}

func reflectKind(t types.Type) uint64 {
	switch u := t.Underlying().(type) {
	case *types.Basic:
		switch u.Kind() {
		case types.Bool:
			return 1
		case types.Int:
			return 2
		case types.Int8:
			return 3
		case types.Int16:
			return 4
		case types.Int32:
			return 5
		case types.Int64:
			return 6
		case types.Uint:
			return 7
		case types.Uint8:
			return 8
		case types.Uint16:
			return 9
		case types.Uint32:
			return 10
		case types.Uint64:
			return 11
		case types.Uintptr:
			return 12
		case types.Float32:
			return 13
		case types.Float64:
			return 14
		case types.String:
			return 24
		case types.UnsafePointer:
			return 26
		}
	case *types.Array:
		return 17
	case *types.Chan:
		return 18
	case *types.Signature:
		return 19
	case *types.Interface:
		return 20
	case *types.Map:
		return 21
	case *types.Pointer:
		return 22
	case *types.Slice:
		return 23
	case *types.Struct:
		return 25
	}
	unsupportedf("reflect kind of %s", t)
	return 0
}

func reflectValueType(t *Thread) types.Type {
	rp := t.ex.prog.SSA.ImportedPackage("reflect")
	if rp == nil {
		unsupportedf("package reflect not loaded")
	}
	return rp.Type("Value").Type()
}

func init() {
	I := intrinsics
	I["reflect.ValueOf"] = func(t *Thread, fn *ssa.Function, a []Value) Value {
		iv, _ := a[0].(*IfaceVal)
		if iv == nil {
			return mkRValue(t, nil)
		}
		return mkRValue(t, &RVal{T: iv.T, V: iv.V})
	}
	I["(reflect.Value).Kind"] = func(t *Thread, fn *ssa.Function, a []Value) Value {
		rv := rvalOf(a[0])
		if rv == nil {
			return MkBV(0, 64)
		}
		return MkBV(reflectKind(rv.T), 64)
	}
	I["(reflect.Value).IsValid"] = func(t *Thread, fn *ssa.Function, a []Value) Value { return MkBool(rvalOf(a[0]) != nil) }
	I["(reflect.Value).IsNil"] = func(t *Thread, fn *ssa.Function, a []Value) Value {
		rv := rvalOf(a[0])
		if rv == nil {
			panic(&goPanic{msg: "reflect: call of reflect.Value.IsNil on zero Value"})
		}
		return MkBool(isNilValue(rv.V))
	}
	I["(reflect.Value).MapKeys"] = func(t *Thread, fn *ssa.Function, a []Value) Value {
		rv := rvalOf(a[0])
		if rv == nil {
			panic(&goPanic{msg: "reflect: call of reflect.Value.MapKeys on zero Value"})
		}
		mt, ok := rv.T.Underlying().(*types.Map)
		if !ok {
			panic(&goPanic{msg: "reflect: call of reflect.Value.MapKeys on non-map Value"})
		}
		m, _ := rv.V.(*MapObj)
		vt := reflectValueType(t)
		var keys []Value
		if m != nil {
			for _, e := range m.E {
				if t.ex.branch(e.P) {
					keys = append(keys, mkRValue(t, &RVal{T: mt.Key(), V: e.K}))
				}
			}
		}
		arr := newArrayCell(vt, len(keys))
		for i, k := range keys {
			arr.Elem(i).Store(k)
		}
		return &SliceVal{Arr: arr, Len: len(keys), Cap: len(keys)}
	}
	I["(reflect.Value).MapIndex"] = func(t *Thread, fn *ssa.Function, a []Value) Value {
		rv, kv := rvalOf(a[0]), rvalOf(a[1])
		if rv == nil || kv == nil {
			panic(&goPanic{msg: "reflect: call of reflect.Value.MapIndex on zero Value"})
		}
		mt, ok := rv.T.Underlying().(*types.Map)
		if !ok {
			panic(&goPanic{msg: "reflect: call of reflect.Value.MapIndex on non-map Value"})
		}
		m, _ := rv.V.(*MapObj)
		v, found := t.mapLookup(m, kv.V, mt.Elem())
		if !t.ex.branch(found) {
			return mkRValue(t, nil)
		}
		return mkRValue(t, &RVal{T: mt.Elem(), V: v})
	}
	I["(reflect.Value).Elem"] = func(t *Thread, fn *ssa.Function, a []Value) Value {
		rv := rvalOf(a[0])
		if rv == nil {
			panic(&goPanic{msg: "reflect: call of reflect.Value.Elem on zero Value"})
		}
		switch rv.T.Underlying().(type) {
		case *types.Interface:
			iv, _ := rv.V.(*IfaceVal)
			if iv == nil {
				return mkRValue(t, nil)
			}
			return mkRValue(t, &RVal{T: iv.T, V: iv.V})
		case *types.Pointer:
			c, _ := rv.V.(*Cell)
			if c == nil {
				return mkRValue(t, nil)
			}
			return mkRValue(t, &RVal{T: c.T, V: c.Load()})
		}
		panic(&goPanic{msg: "reflect: call of reflect.Value.Elem on " + rv.T.String() + " Value"})
	}
	I["(reflect.Value).String"] = func(t *Thread, fn *ssa.Function, a []Value) Value {
		rv := rvalOf(a[0])
		if rv == nil {
			return StrConst("<invalid Value>")
		}
		if s, ok := rv.V.(*StrVal); ok && isString(rv.T) {
			return s
		}
		return StrConst("<" + rv.T.String() + " Value>")
	}
	I["(reflect.Value).Interface"] = func(t *Thread, fn *ssa.Function, a []Value) Value {
		rv := rvalOf(a[0])
		if rv == nil {
			panic(&goPanic{msg: "reflect: call of reflect.Value.Interface on zero Value"})
		}
		if _, ok := rv.T.Underlying().(*types.Interface); ok {
			iv, _ := rv.V.(*IfaceVal)
			return iv
		}
		return &IfaceVal{T: rv.T, V: rv.V}
	}
	I["(reflect.Value).Len"] = func(t *Thread, fn *ssa.Function, a []Value) Value {
		rv := rvalOf(a[0])
		if rv == nil {
			panic(&goPanic{msg: "reflect: call of reflect.Value.Len on zero Value"})
		}
		switch v := rv.V.(type) {
		case *MapObj:
			return mapLen(v)
		case *SliceVal:
			return MkBV(uint64(v.Len), 64)
		case *StrVal:
			return MkBV(uint64(len(v.B)), 64)
		}
		unsupportedf("reflect.Value.Len on %T", rv.V)
		return nil
	}
	I["(reflect.Value).NumField"] = func(t *Thread, fn *ssa.Function, a []Value) Value {
		rv := rvalOf(a[0])
		if rv == nil {
			panic(&goPanic{msg: "reflect: call of reflect.Value.NumField on zero Value"})
		}
		st, ok := rv.T.Underlying().(*types.Struct)
		if !ok {
			panic(&goPanic{msg: "reflect: call of reflect.Value.NumField on non-struct Value"})
		}
		return MkBV(uint64(st.NumFields()), 64)
	}
	I["(reflect.Value).Field"] = func(t *Thread, fn *ssa.Function, a []Value) Value {
		rv := rvalOf(a[0])
		if rv == nil {
			panic(&goPanic{msg: "reflect: call of reflect.Value.Field on zero Value"})
		}
		st, ok := rv.T.Underlying().(*types.Struct)
		if !ok {
			panic(&goPanic{msg: "reflect: call of reflect.Value.Field on non-struct Value"})
		}
		i := t.concreteInt(a[1].(*Term), "reflect field index")
		if i < 0 || i >= st.NumFields() {
			panic(&goPanic{msg: "reflect: Field index out of range"})
		}
		return mkRValue(t, &RVal{T: st.Field(i).Type(), V: rv.V.(*StructVal).F[i]})
	}
	// reflect.Type: an interface value whose payload is *RTypeVal (see reflect.TypeOf in intrinsics2.go)
	rtypeIface := func(t *Thread, ty types.Type) Value {
		rp := t.ex.prog.SSA.ImportedPackage("reflect")
		return &IfaceVal{T: types.NewPointer(rp.Type("rtype").Type()), V: &RTypeVal{T: ty}}
	}
	I["(reflect.Value).Type"] = func(t *Thread, fn *ssa.Function, a []Value) Value {
		rv := rvalOf(a[0])
		if rv == nil {
			panic(&goPanic{msg: "reflect: call of reflect.Value.Type on zero Value"})
		}
		return rtypeIface(t, rv.T)
	}
	rt := func(v Value) *RTypeVal {
		x, ok := v.(*RTypeVal)
		if !ok {
			unsupportedf("reflect.Type method on %T", v)
		}
		return x
	}
	I["(*reflect.rtype).NumField"] = func(t *Thread, fn *ssa.Function, a []Value) Value {
		st, ok := rt(a[0]).T.Underlying().(*types.Struct)
		if !ok {
			panic(&goPanic{msg: "reflect: NumField of non-struct type"})
		}
		return MkBV(uint64(st.NumFields()), 64)
	}
	I["(*reflect.rtype).Kind"] = func(t *Thread, fn *ssa.Function, a []Value) Value { return MkBV(reflectKind(rt(a[0]).T), 64) }
	I["(*reflect.rtype).String"] = func(t *Thread, fn *ssa.Function, a []Value) Value { return StrConst(rt(a[0]).T.String()) }
	I["(*reflect.rtype).Name"] = func(t *Thread, fn *ssa.Function, a []Value) Value {
		if n, ok := rt(a[0]).T.(*types.Named); ok {
			return StrConst(n.Obj().Name())
		}
		return StrConst("")
	}
	I["(*reflect.rtype).Field"] = func(t *Thread, fn *ssa.Function, a []Value) Value {
		st, ok := rt(a[0]).T.Underlying().(*types.Struct)
		if !ok {
			panic(&goPanic{msg: "reflect: Field of non-struct type"})
		}
		i := t.concreteInt(a[1].(*Term), "reflect field index")
		if i < 0 || i >= st.NumFields() {
			panic(&goPanic{msg: "reflect: Field index out of bounds"})
		}
		// reflect.StructField{Name, PkgPath, Type, Tag, Offset, Index, Anonymous}
		res := fn.Signature.Results().At(0).Type()
		sf := zeroValue(res).(*StructVal)
		sst := res.Underlying().(*types.Struct)
		for k := 0; k < sst.NumFields(); k++ {
			switch sst.Field(k).Name() {
			case "Name":
				sf.F[k] = StrConst(st.Field(i).Name())
			case "Tag":
				sf.F[k] = StrConst(st.Tag(i))
			case "Type":
				sf.F[k] = rtypeIface(t, st.Field(i).Type())
			case "Anonymous":
				sf.F[k] = MkBool(st.Field(i).Anonymous())
			case "PkgPath":
				if !st.Field(i).Exported() && st.Field(i).Pkg() != nil {
					sf.F[k] = StrConst(st.Field(i).Pkg().Path())
				}
			}
		}
		return sf
	}
	_ = fmt.Sprint
}
