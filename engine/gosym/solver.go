package gosym

import (
	"bufio"
	"crypto/sha256"
	"fmt"
	"io"
	"math/big"
	"os"
	"os/exec"
	"strings"
	"time"
)

type SatResult int

const (
	Unsat SatResult = iota
	Sat
	Unknown
)

func (r SatResult) String() string { return [...]string{"unsat", "sat", "unknown"}[r] }

// Solver drives one long-lived SMT solver process over stdin/stdout.
type Solver struct {
	Kind    string // z3 | z3-new | cvc5
	cmd     *exec.Cmd
	in      io.WriteCloser
	out     *bufio.Reader
	Queries int
	NSat    int
	NUnsat  int
	NUnk    int
	Time    time.Duration
	Errors  []string
	Fallbacks int
	timeout int
	cache   map[[32]byte]cacheEnt
	Log     io.Writer
	sinceRestart int
}

type cacheEnt struct {
	r SatResult
	m *Model
}

func NewSolver(kind string, timeoutMs int) (*Solver, error) {
	s := &Solver{Kind: kind, timeout: timeoutMs, cache: map[[32]byte]cacheEnt{}}
	if s.Kind == "" {
		s.Kind = "z3"
	}
	if err := s.start(); err != nil {
		return nil, err
	}
	return s, nil
}

// start launches (or relaunches) the solver process. The process is recycled every few thousand
// queries because a long push/pop session makes z3 grow without bound.
func (s *Solver) start() error {
	kind, timeoutMs := s.Kind, s.timeout
	var cmd *exec.Cmd
	switch kind {
	case "", "z3":
		cmd = exec.Command("z3", "-in", "-smt2")
	case "z3-new":
		cmd = exec.Command("z3-new", "-in", "-smt2")
	case "cvc5":
		cmd = exec.Command("cvc5", "--incremental", "--produce-models", "--lang=smt2", fmt.Sprintf("--tlimit-per=%d", timeoutMs))
	default:
		return fmt.Errorf("unknown solver %q", kind)
	}
	in, err := cmd.StdinPipe()
	if err != nil {
		return err
	}
	out, err := cmd.StdoutPipe()
	if err != nil {
		return err
	}
	cmd.Stderr = cmd.Stdout
	if err := cmd.Start(); err != nil {
		return err
	}
	s.cmd, s.in, s.out, s.sinceRestart = cmd, in, bufio.NewReaderSize(out, 1<<20), 0
	if p := os.Getenv("GOSYM_SMTLOG"); p != "" && s.Log == nil {
		if f, err := os.OpenFile(fmt.Sprintf("%s.%d", p, cmd.Process.Pid), os.O_CREATE|os.O_WRONLY|os.O_TRUNC, 0o644); err == nil {
			s.Log = f
		}
	}
	if kind == "cvc5" {
		s.send("(set-logic ALL)\n")
	} else {
		s.send("(set-option :produce-models true)\n")
		s.send(fmt.Sprintf("(set-option :timeout %d)\n", timeoutMs/4)) // a query the incremental core cannot decide quickly goes to oneShot
	}
	return nil
}

func (s *Solver) send(txt string) {
	if s.Log != nil {
		io.WriteString(s.Log, txt)
	}
	io.WriteString(s.in, txt)
}

func (s *Solver) Close() {
	if s.cmd != nil {
		s.in.Close()
		s.cmd.Process.Kill()
		s.cmd.Wait()
		s.cmd = nil
	}
}

func (s *Solver) readLine() (string, error) {
	l, err := s.out.ReadString('\n')
	return strings.TrimSpace(l), err
}

// readSexpr reads a balanced s-expression (possibly multi-line).
func (s *Solver) readSexpr() (string, error) {
	var sb strings.Builder
	depth := 0
	started := false
	for {
		l, err := s.out.ReadString('\n')
		if err != nil {
			return sb.String(), err
		}
		sb.WriteString(l)
		for _, c := range l {
			if c == '(' {
				depth++
				started = true
			} else if c == ')' {
				depth--
			}
		}
		if started && depth <= 0 {
			return sb.String(), nil
		}
		if !started && strings.TrimSpace(l) != "" {
			return sb.String(), nil
		}
	}
}

// Check decides satisfiability of the conjunction. wantModel requests values for all variables.
func (s *Solver) Check(ts []*Term, wantModel bool) (SatResult, *Model) {
	// trivial cases
	var live []*Term
	for _, t := range ts {
		if t.IsConst() {
			if !t.B {
				return Unsat, nil
			}
			continue
		}
		live = append(live, t)
	}
	if len(live) == 0 {
		return Sat, &Model{Vals: map[string]*Term{}}
	}
	p := NewPrinter()
	script, names := p.Script(live)
	key := sha256.Sum256([]byte(script))
	if e, ok := s.cache[key]; ok && (!wantModel || e.m != nil || e.r != Sat) {
		return e.r, e.m
	}
	start := time.Now()
	s.Queries++
	s.sinceRestart++
	if s.sinceRestart > 5000 {
		s.Close()
		if err := s.start(); err != nil {
			s.Errors = append(s.Errors, "solver restart failed: "+err.Error())
			return Unknown, nil
		}
	}
	if len(s.cache) > 200000 {
		s.cache = map[[32]byte]cacheEnt{}
	}
	s.send("(push 1)\n" + script + "(check-sat)\n")
	res := Unknown
	for {
		l, err := s.readLine()
		if err != nil {
			s.Errors = append(s.Errors, "solver died: "+err.Error())
			s.Time += time.Since(start)
			s.NUnk++
			return Unknown, nil
		}
		if l == "sat" {
			res = Sat
			break
		}
		if l == "unsat" {
			res = Unsat
			break
		}
		if l == "unknown" || l == "timeout" {
			res = Unknown
			if s.Log != nil {
				io.WriteString(s.Log, "; ^^^ UNKNOWN\n")
			}
			break
		}
		if strings.HasPrefix(l, "(error") {
			s.Errors = append(s.Errors, l)
			// keep reading until verdict; verdict will be distrusted
		}
	}
	if len(s.Errors) > 0 {
		res = Unknown
	}
	var m *Model
	if res == Sat && wantModel && len(names) > 0 {
		s.send("(get-value (" + strings.Join(names, " ") + "))\n")
		txt, err := s.readSexpr()
		if err != nil || strings.HasPrefix(strings.TrimSpace(txt), "(error") {
			s.Errors = append(s.Errors, "get-value: "+txt)
			res = Unknown
		} else {
			m = parseModel(txt, p)
		}
	} else if res == Sat && wantModel {
		m = &Model{Vals: map[string]*Term{}}
	}
	s.send("(pop 1)\n")
	if res == Unknown && len(s.Errors) == 0 {
		// the incremental core gave up: decide the query in a fresh one-shot process (tactic-based solving)
		res, m = s.oneShot(script, names, wantModel, p)
	}
	s.Time += time.Since(start)
	switch res {
	case Sat:
		s.NSat++
	case Unsat:
		s.NUnsat++
	default:
		s.NUnk++
	}
	s.cache[key] = cacheEnt{res, m}
	return res, m
}

// ---- s-expression parsing for get-value ----

type sx_ struct {
	atom string
	list []*sx_
}

func parseSx(s string, i int) (*sx_, int) {
	for i < len(s) && (s[i] == ' ' || s[i] == '\n' || s[i] == '\t' || s[i] == '\r') {
		i++
	}
	if i >= len(s) {
		return nil, i
	}
	if s[i] == '(' {
		n := &sx_{list: []*sx_{}}
		i++
		for {
			for i < len(s) && (s[i] == ' ' || s[i] == '\n' || s[i] == '\t' || s[i] == '\r') {
				i++
			}
			if i >= len(s) {
				return n, i
			}
			if s[i] == ')' {
				return n, i + 1
			}
			var c *sx_
			c, i = parseSx(s, i)
			if c == nil {
				return n, i
			}
			n.list = append(n.list, c)
		}
	}
	j := i
	for j < len(s) && !strings.ContainsRune(" \n\t\r()", rune(s[j])) {
		j++
	}
	return &sx_{atom: s[i:j]}, j
}

func sxReal(e *sx_) *big.Rat {
	if e.list == nil {
		r, ok := new(big.Rat).SetString(e.atom)
		if !ok {
			return new(big.Rat)
		}
		return r
	}
	if len(e.list) == 0 {
		return new(big.Rat)
	}
	switch e.list[0].atom {
	case "-":
		if len(e.list) == 2 {
			return new(big.Rat).Neg(sxReal(e.list[1]))
		}
		return new(big.Rat).Sub(sxReal(e.list[1]), sxReal(e.list[2]))
	case "/":
		d := sxReal(e.list[2])
		if d.Sign() == 0 {
			return new(big.Rat)
		}
		return new(big.Rat).Quo(sxReal(e.list[1]), d)
	case "+":
		return new(big.Rat).Add(sxReal(e.list[1]), sxReal(e.list[2]))
	case "*":
		return new(big.Rat).Mul(sxReal(e.list[1]), sxReal(e.list[2]))
	}
	return new(big.Rat)
}

func parseModel(txt string, p *Printer) *Model {
	m := &Model{Vals: map[string]*Term{}}
	root, _ := parseSx(txt, 0)
	if root == nil {
		return m
	}
	for _, pair := range root.list {
		if len(pair.list) != 2 {
			continue
		}
		name := pair.list[0].atom
		w := p.VarWidth(name)
		v := pair.list[1]
		switch {
		case w == WBool:
			m.Vals[name] = MkBool(v.atom == "true")
		case w == WReal:
			m.Vals[name] = MkReal(sxReal(v))
		default:
			a := v.atom
			var val uint64
			if strings.HasPrefix(a, "#x") {
				fmt.Sscanf(a[2:], "%x", &val)
			} else if strings.HasPrefix(a, "#b") {
				fmt.Sscanf(a[2:], "%b", &val)
			} else if len(v.list) == 3 && v.list[0].atom == "_" && strings.HasPrefix(v.list[1].atom, "bv") {
				fmt.Sscanf(v.list[1].atom[2:], "%d", &val)
			}
			m.Vals[name] = MkBV(val, w)
		}
	}
	return m
}

// oneShot decides a script in fresh solver processes (z3, then z3-new): without push/pop z3 applies its
// pre-processing tactics and bit-blasting, which decides bit-vector arithmetic the incremental core does not.
func (s *Solver) oneShot(script string, names []string, wantModel bool, p *Printer) (SatResult, *Model) {
	s.Fallbacks++
	for _, bin := range []string{"z3", "z3-new"} {
		txt := fmt.Sprintf("(set-option :produce-models true)\n(set-option :timeout %d)\n%s(check-sat)\n", 2*s.timeout, script)
		if wantModel && len(names) > 0 {
			txt += "(get-value (" + strings.Join(names, " ") + "))\n"
		}
		cmd := exec.Command(bin, "-in", "-smt2")
		cmd.Stdin = strings.NewReader(txt)
		outb, _ := cmd.Output()
		out := string(outb)
		if strings.Contains(out, "(error") && !strings.HasPrefix(strings.TrimSpace(out), "unsat") {
			continue
		}
		first := strings.TrimSpace(strings.SplitN(out, "\n", 2)[0])
		switch first {
		case "unsat":
			return Unsat, nil
		case "sat":
			if !wantModel || len(names) == 0 {
				return Sat, &Model{Vals: map[string]*Term{}}
			}
			rest := strings.SplitN(out, "\n", 2)
			if len(rest) == 2 && !strings.Contains(rest[1], "(error") {
				return Sat, parseModel(rest[1], p)
			}
		}
	}
	return Unknown, nil
}
