package gosym

import (
	"time"
	"go/types"
	"math/big"

	"golang.org/x/tools/go/ssa"
)

// RTypeVal is the payload of a reflect.Type value.
type RTypeVal struct{ T types.Type }

func init() {
	for real, model := range map[string]string{
		"context.WithCancel":   "ModelWithCancel",
		"context.Background":   "ModelBackground",
		"context.TODO":         "ModelBackground",
		"context.WithTimeout":  "ModelWithTimeout",
		"context.WithDeadline": "ModelWithDeadline",
		"context.WithValue":    "ModelWithValue",
		"github.com/minio/highwayhash.New64": "ModelNewHash64",
		// file-system model (harness/verifapi/fsmodel.go)
		"os.OpenFile": "ModelOpenFile", "os.Open": "ModelOpen", "os.Create": "ModelCreate", "os.Stat": "ModelStat", "os.Lstat": "ModelStat",
		"os.MkdirAll": "ModelMkdirAll", "os.Mkdir": "ModelMkdirAll", "os.ReadDir": "ModelReadDir", "os.RemoveAll": "ModelRemoveAll",
		"os.Remove": "ModelRemove", "os.ReadFile": "ModelReadFile", "os.WriteFile": "ModelWriteFile", "os.IsNotExist": "ModelIsNotExist",
		"os.IsExist": "ModelIsExist", "os.TempDir": "ModelOSTempDir", "os.Getenv": "ModelGetenv", "os.Setenv": "ModelSetenv", "os.IsTimeout": "ModelIsTimeout",
		"(*os.File).Read": "ModelFileRead", "(*os.File).Write": "ModelFileWrite", "(*os.File).WriteString": "ModelFileWriteString",
		"(*os.File).ReadFrom": "ModelFileReadFrom", "(*os.File).WriteTo": "ModelFileWriteTo", "(*os.File).Seek": "ModelFileSeek", "(*os.File).Truncate": "ModelFileTruncate",
		"(*os.File).Close": "ModelFileClose", "(*os.File).Stat": "ModelFileStat", "(*os.File).Name": "ModelFileName", "(*os.File).Sync": "ModelFileSync",
		"github.com/rogpeppe/go-internal/lockedfile.OpenFile":     "ModelLockedOpenFile",
		"(*github.com/rogpeppe/go-internal/lockedfile.File).Close": "ModelLockedClose",
		VerifAPIPath + ".TempDir": "ModelTempDir", VerifAPIPath + ".CrashAt": "ModelCrashAt", VerifAPIPath + ".FSOps": "ModelFSOps",
		VerifAPIPath + ".Reboot": "ModelReboot",
	} {
		RegisterRedirect(real, model)
	}
	I := intrinsics

	// ---------------- time ----------------
	// time.Time = {wall uint64 = 0, ext int64 = nanoseconds (symbolic), loc = nil}
	mkTime := func(ns *Term) Value {
		return &StructVal{F: []Value{MkBV(0, 64), ns, (*Cell)(nil)}}
	}
	ns := func(v Value) *Term { return v.(*StructVal).F[1].(*Term) }
	now := func(t *Thread) *Term {
		noteStub("time.Now = arbitrary non-decreasing clock (int64 ns, >= 1); time.Time methods are integer operations on it")
		// reading the clock observes global state: it is a scheduling point like a synchronisation operation
		t.visible()
		ex := t.ex
		c := ex.fresh("clock", 64)
		lo := MkBV(1, 64)
		if ex.clock != nil {
			lo = ex.clock
		}
		cmp := OpSLE
		if ex.strictClock && ex.clock != nil {
			cmp = OpSLT
		}
		ex.pc = append(ex.pc, BVCmp(cmp, lo, c), BVCmp(OpSLT, c, MkBV(1<<62, 64)))
		ex.clock = c
		return c
	}
	I["time.ParseDuration"] = func(t *Thread, fn *ssa.Function, a []Value) Value {
		str, ok := a[0].(*StrVal).Concrete()
		if !ok {
			unsupportedf("time.ParseDuration of a symbolic string")
		}
		d, err := time.ParseDuration(str)
		if err != nil {
			return Tuple{MkBV(0, 64), mkError(t, StrConst(err.Error()))}
		}
		return Tuple{MkBV(uint64(int64(d)), 64), (*IfaceVal)(nil)}
	}
	I[apiP+"LiveGoroutines"] = func(t *Thread, fn *ssa.Function, a []Value) Value {
		n := 0
		for _, o := range t.ex.threads {
			if o != t && o.state != 2 {
				n++
			}
		}
		return MkBV(uint64(n), 64)
	}
	I[apiP+"StrictClock"] = func(t *Thread, fn *ssa.Function, a []Value) Value {
		t.ex.H.noteOutside("two readings of the clock that return the same instant (timestamps are assumed to be strictly increasing)")
		t.ex.strictClock = true
		return nil
	}
	I["time.Now"] = func(t *Thread, fn *ssa.Function, a []Value) Value { return mkTime(now(t)) }
	I["time.Unix"] = func(t *Thread, fn *ssa.Function, a []Value) Value {
		return mkTime(BVBin(OpAdd, BVBin(OpMul, a[0].(*Term), MkBV(1000000000, 64)), a[1].(*Term)))
	}
	I["time.Since"] =func(t *Thread, fn *ssa.Function, a []Value) Value { return BVBin(OpSub, now(t), ns(a[0])) }
	I["time.Until"] = func(t *Thread, fn *ssa.Function, a []Value) Value { return BVBin(OpSub, ns(a[0]), now(t)) }
	I["(time.Time).After"] = func(t *Thread, fn *ssa.Function, a []Value) Value { return BVCmp(OpSLT, ns(a[1]), ns(a[0])) }
	I["(time.Time).Before"] = func(t *Thread, fn *ssa.Function, a []Value) Value { return BVCmp(OpSLT, ns(a[0]), ns(a[1])) }
	I["(time.Time).Equal"] = func(t *Thread, fn *ssa.Function, a []Value) Value { return Eq(ns(a[0]), ns(a[1])) }
	I["(time.Time).IsZero"] = func(t *Thread, fn *ssa.Function, a []Value) Value { return Eq(ns(a[0]), MkBV(0, 64)) }
	I["(time.Time).Sub"] = func(t *Thread, fn *ssa.Function, a []Value) Value { return BVBin(OpSub, ns(a[0]), ns(a[1])) }
	I["(time.Time).Add"] = func(t *Thread, fn *ssa.Function, a []Value) Value {
		return mkTime(BVBin(OpAdd, ns(a[0]), a[1].(*Term)))
	}
	I["(time.Time).UnixNano"] = func(t *Thread, fn *ssa.Function, a []Value) Value { return ns(a[0]) }
	I["(time.Time).Unix"] = func(t *Thread, fn *ssa.Function, a []Value) Value {
		return BVBin(OpSDiv, ns(a[0]), MkBV(1000000000, 64))
	}
	I["(time.Time).String"] = func(t *Thread, fn *ssa.Function, a []Value) Value { return StrConst("<time>") }
	I["(time.Time).Format"] = func(t *Thread, fn *ssa.Function, a []Value) Value { return StrConst("<time>") }
	I["(time.Duration).String"] = func(t *Thread, fn *ssa.Function, a []Value) Value { return StrConst("<duration>") }
	I["(time.Duration).Seconds"] = func(t *Thread, fn *ssa.Function, a []Value) Value {
		return RBin(OpRDiv, BV2Real(a[0].(*Term), true), MkReal(big.NewRat(1000000000, 1)))
	}
	newTimer := func(t *Thread, et types.Type, dur Value) *ChanObj {
		noteStub("timers (time.After/NewTimer/Sleep) fire only when every goroutine is blocked, oldest first, or on verifapi.AdvanceTime")
		ch := t.ex.newChan(et, 1)
		ch.timer = true
		ch.timerDur, _ = dur.(*Term)
		t.ex.timers = append(t.ex.timers, ch)
		return ch
	}
	I["time.After"] = func(t *Thread, fn *ssa.Function, a []Value) Value {
		et := fn.Signature.Results().At(0).Type().Underlying().(*types.Chan).Elem()
		return newTimer(t, et, a[0])
	}
	I["time.Sleep"] = func(t *Thread, fn *ssa.Function, a []Value) Value {
		tp := t.ex.prog.SSA.ImportedPackage("time")
		ch := newTimer(t, tp.Type("Time").Type(), a[0])
		t.selectOp([]selCase{{ch: ch}}, false)
		return nil
	}
	I["time.NewTimer"] = func(t *Thread, fn *ssa.Function, a []Value) Value {
		tt := fn.Signature.Results().At(0).Type().(*types.Pointer).Elem()
		c := newCell(tt)
		st := tt.Underlying().(*types.Struct)
		for i := 0; i < st.NumFields(); i++ {
			if st.Field(i).Name() == "C" {
				ch := newTimer(t, st.Field(i).Type().Underlying().(*types.Chan).Elem(), a[0])
				c.Sub[i].V = ch
				c.Tag = ch
			}
		}
		return c
	}
	// verifapi.PendingTimer: duration (ns) of the oldest timer that has not fired yet; -1 if none (engine only)
	I[apiP+"PendingTimer"] = func(t *Thread, fn *ssa.Function, a []Value) Value {
		if tm := t.ex.nextTimer(); tm != nil && tm.timerDur != nil {
			return tm.timerDur
		}
		return MkBV(^uint64(0), 64)
	}
	I[apiP+"PendingTimers"] = func(t *Thread, fn *ssa.Function, a []Value) Value {
		n := 0
		for _, tm := range t.ex.timers {
			if !tm.timerFired && !tm.timerStopped && liveWaiter(&tm.recvq) != nil {
				n++
			}
		}
		return MkBV(uint64(n), 64)
	}
	I["(*time.Timer).Stop"] = func(t *Thread, fn *ssa.Function, a []Value) Value {
		ch, _ := a[0].(*Cell).Tag.(*ChanObj)
		if ch == nil || ch.timerFired || ch.timerStopped {
			return TFalse
		}
		ch.timerStopped = true
		return TTrue
	}
	I["(*time.Timer).Reset"] = func(t *Thread, fn *ssa.Function, a []Value) Value {
		ch, _ := a[0].(*Cell).Tag.(*ChanObj)
		if ch == nil {
			return TFalse
		}
		active := !ch.timerFired && !ch.timerStopped
		ch.timerFired, ch.timerStopped = false, false
		// move to the end of the firing order
		for i, x := range t.ex.timers {
			if x == ch {
				t.ex.timers = append(append([]*ChanObj{}, t.ex.timers[:i]...), t.ex.timers[i+1:]...)
				break
			}
		}
		t.ex.timers = append(t.ex.timers, ch)
		return MkBool(active)
	}

	I["github.com/fsnotify/fsnotify.NewWatcher"] = func(t *Thread, fn *ssa.Function, a []Value) Value {
		noteStub("fsnotify.NewWatcher = unavailable (returns an error; the code falls back to its one-second Stat poll)")
		return Tuple{(*Cell)(nil), mkError(t, StrConst("fsnotify: not available in the model"))}
	}
	// verifapi.FixRandom(vals...): the next randstr.RandomString calls return these concrete strings
	I[apiP+"FixRandom"] = func(t *Thread, fn *ssa.Function, a []Value) Value {
		sl := a[0].(*SliceVal)
		var q []*StrVal
		for i := 0; i < sl.Len; i++ {
			q = append(q, sl.Arr.Elem(sl.Off+i).V.(*StrVal))
		}
		t.ex.notes["_random"] = q
		return nil
	}
	I["crypto/subtle.ConstantTimeCompare"] = func(t *Thread, fn *ssa.Function, a []Value) Value {
		x, y := a[0].(*SliceVal), a[1].(*SliceVal)
		eq := eqValue(&StrVal{B: sliceBytes(x)}, &StrVal{B: sliceBytes(y)}, nil)
		return Ite(eq, MkBV(1, 64), MkBV(0, 64))
	}
	// ---------------- os/exec, flag: processes are not modelled ----------------
	I["os/exec.Command"] = func(t *Thread, fn *ssa.Function, a []Value) Value {
		noteStub("os/exec: Command builds an object, Start always fails (no process is ever created in the model)")
		return newCell(fn.Signature.Results().At(0).Type().(*types.Pointer).Elem())
	}
	I["(*os/exec.Cmd).Start"] = func(t *Thread, fn *ssa.Function, a []Value) Value {
		return mkError(t, StrConst("exec: processes are not available in the model"))
	}
	I["(*os/exec.Cmd).Run"] = I["(*os/exec.Cmd).Start"]
	I["flag.Lookup"] = func(t *Thread, fn *ssa.Function, a []Value) Value {
		return newCell(fn.Signature.Results().At(0).Type().(*types.Pointer).Elem())
	}
	I["runtime.NumCPU"] = func(t *Thread, fn *ssa.Function, a []Value) Value { return MkBV(4, 64) }
	I["github.com/pbnjay/memory.TotalMemory"] = func(t *Thread, fn *ssa.Function, a []Value) Value { return MkBV(8<<30, 64) }
	I["crypto/rand.Read"] = func(t *Thread, fn *ssa.Function, a []Value) Value {
		noteStub("crypto/rand.Read = arbitrary bytes")
		sl := a[0].(*SliceVal)
		for k := 0; k < sl.Len; k++ {
			sl.Arr.Elem(sl.Off + k).V = t.ex.fresh("rnd", 8)
		}
		return Tuple{MkBV(uint64(sl.Len), 64), (*IfaceVal)(nil)}
	}
	// ---------------- sync.Map: an ordinary map of interface keys/values kept in the cell's tag ----------------
	smap := func(t *Thread, v Value) *MapObj {
		c, _ := v.(*Cell)
		if c == nil {
			rtPanic("invalid memory address or nil pointer dereference")
		}
		if m, ok := c.Tag.(*MapObj); ok {
			return m
		}
		t.ex.objN++
		m := &MapObj{KT: tAny, VT: tAny, ID: t.ex.objN}
		c.Tag = m
		return m
	}
	I["(*sync.Map).Load"] = func(t *Thread, fn *ssa.Function, a []Value) Value {
		v, found := t.mapLookup(smap(t, a[0]), a[1], tAny)
		if t.ex.branch(found) {
			return Tuple{v, TTrue}
		}
		return Tuple{(*IfaceVal)(nil), TFalse}
	}
	I["(*sync.Map).Store"] = func(t *Thread, fn *ssa.Function, a []Value) Value {
		t.mapUpdate(smap(t, a[0]), a[1], a[2])
		return nil
	}
	I["(*sync.Map).LoadOrStore"] = func(t *Thread, fn *ssa.Function, a []Value) Value {
		m := smap(t, a[0])
		v, found := t.mapLookup(m, a[1], tAny)
		if t.ex.branch(found) {
			return Tuple{v, TTrue}
		}
		t.mapUpdate(m, a[1], a[2])
		return Tuple{a[2], TFalse}
	}
	I["(*sync.Map).Delete"] = func(t *Thread, fn *ssa.Function, a []Value) Value {
		m := smap(t, a[0])
		for _, e := range m.E {
			e.P = And(e.P, Not(eqValue(e.K, a[1], tAny)))
		}
		return nil
	}
	I["(*sync.Map).Range"] = func(t *Thread, fn *ssa.Function, a []Value) Value {
		m := smap(t, a[0])
		f := a[1].(*FuncVal)
		for _, e := range append([]*MapEntry{}, m.E...) {
			if t.ex.branch(e.P) {
				r := t.callFunc(f, []Value{e.K, e.V}).(*Term)
				if !t.ex.branch(r) {
					break
				}
			}
		}
		return nil
	}
	I["math.Min"] = func(t *Thread, fn *ssa.Function, a []Value) Value {
		x, y := a[0].(*Term), a[1].(*Term)
		return Ite(RCmp(OpRLT, y, x), y, x)
	}
	I["math.Max"] = func(t *Thread, fn *ssa.Function, a []Value) Value {
		x, y := a[0].(*Term), a[1].(*Term)
		return Ite(RCmp(OpRLT, x, y), y, x)
	}
	// ---------------- reflect ----------------
	I["reflect.TypeOf"] = func(t *Thread, fn *ssa.Function, a []Value) Value {
		noteStub("reflect.TypeOf = dynamic type token (only == is supported)")
		iv, _ := a[0].(*IfaceVal)
		if iv == nil {
			return (*IfaceVal)(nil)
		}
		rp := t.ex.prog.SSA.ImportedPackage("reflect")
		return &IfaceVal{T: types.NewPointer(rp.Type("rtype").Type()), V: &RTypeVal{T: iv.T}}
	}
	I["reflect.DeepEqual"] = func(t *Thread, fn *ssa.Function, a []Value) Value {
		noteStub("reflect.DeepEqual on maps/slices/scalars = structural equality term")
		x, _ := a[0].(*IfaceVal)
		y, _ := a[1].(*IfaceVal)
		if x == nil || y == nil {
			return MkBool(x == nil && y == nil)
		}
		if !types.Identical(x.T, y.T) {
			return TFalse
		}
		return t.deepEqual(x.V, y.V, x.T)
	}

	// ---------------- sync/atomic (plain functions on int cells) ----------------
	for _, w := range []string{"Int32", "Int64", "Uint32", "Uint64"} {
		I["sync/atomic.Load"+w] = func(t *Thread, fn *ssa.Function, a []Value) Value { return a[0].(*Cell).V }
		I["sync/atomic.Store"+w] = func(t *Thread, fn *ssa.Function, a []Value) Value { a[0].(*Cell).V = a[1]; return nil }
		I["sync/atomic.Add"+w] = func(t *Thread, fn *ssa.Function, a []Value) Value {
			c := a[0].(*Cell)
			c.V = BVBin(OpAdd, c.V.(*Term), a[1].(*Term))
			return c.V
		}
		I["sync/atomic.CompareAndSwap"+w] = func(t *Thread, fn *ssa.Function, a []Value) Value {
			c := a[0].(*Cell)
			if t.ex.branch(Eq(c.V.(*Term), a[1].(*Term))) {
				c.V = a[2]
				return TTrue
			}
			return TFalse
		}
	}
}

// deepEqual builds reflect.DeepEqual for the value shapes that occur (maps of scalars, slices, scalars).
func (t *Thread) deepEqual(a, b Value, ty types.Type) *Term {
	switch x := a.(type) {
	case *MapObj:
		y := b.(*MapObj)
		if x == nil || y == nil {
			return MkBool(x == nil && y == nil)
		}
		mt := ty.Underlying().(*types.Map)
		cs := []*Term{Eq(mapLen(x), mapLen(y))}
		for _, e := range x.E {
			v, ok := t.mapLookupMerge(y, e.K, mt.Elem())
			cs = append(cs, Implies(e.P, And(ok, t.deepEqual(e.V, v, mt.Elem()))))
		}
		return And(cs...)
	case *SliceVal:
		y := b.(*SliceVal)
		if (x.Arr == nil) != (y.Arr == nil) || x.Len != y.Len {
			return TFalse
		}
		et := ty.Underlying().(*types.Slice).Elem()
		var cs []*Term
		for i := 0; i < x.Len; i++ {
			cs = append(cs, t.deepEqual(x.Arr.Elem(x.Off+i).Load(), y.Arr.Elem(y.Off+i).Load(), et))
		}
		return And(cs...)
	case *Cell:
		y := b.(*Cell)
		if x == nil || y == nil {
			return MkBool(x == y)
		}
		if x == y {
			return TTrue
		}
		return t.deepEqual(x.Load(), y.Load(), x.T)
	case *StructVal:
		y := b.(*StructVal)
		st := ty.Underlying().(*types.Struct)
		var cs []*Term
		for i := range x.F {
			cs = append(cs, t.deepEqual(x.F[i], y.F[i], st.Field(i).Type()))
		}
		return And(cs...)
	case *IfaceVal:
		y, _ := b.(*IfaceVal)
		if x == nil || y == nil {
			return MkBool(x == nil && y == nil)
		}
		if !types.Identical(x.T, y.T) {
			return TFalse
		}
		return t.deepEqual(x.V, y.V, x.T)
	}
	return eqValue(a, b, ty)
}

// mapLookupMerge is mapLookup restricted to mergeable (scalar) values; it never forks.
func (t *Thread) mapLookupMerge(m *MapObj, k Value, vt types.Type) (Value, *Term) {
	var res Value = zeroValue(vt)
	found := TFalse
	if m == nil {
		return res, found
	}
	for i := len(m.E) - 1; i >= 0; i-- {
		e := m.E[i]
		mt := And(e.P, eqValue(e.K, k, m.KT))
		if mt.IsConst() && !mt.B {
			continue
		}
		nv, ok := iteValue(mt, e.V, res)
		if !ok {
			unsupportedf("DeepEqual on map with non-scalar values")
		}
		res = nv
		found = Or(mt, found)
	}
	return res, found
}
