package gosym

import (
	"fmt"
	"go/types"
	"reflect"
	"strings"

	"golang.org/x/tools/go/ssa"
)

// JSON stub: json.Marshal(v) yields an opaque 2-byte blob that remembers a deep copy of v;
// json.Unmarshal of (a copy of) those bytes assigns that value to the target following
// encoding/json's field-name rules. Unmarshal of any other bytes returns an error.

type blob struct {
	v Value
	t types.Type
}

func blobName(id int, k int) string { return fmt.Sprintf("jsonblob!%d!%d", id, k) }

func isNamed(t types.Type, pkg, name string) bool {
	n, ok := t.(*types.Named)
	return ok && n.Obj().Pkg() != nil && n.Obj().Pkg().Path() == pkg && n.Obj().Name() == name
}

// deepCopy snapshots a value (following pointers, slices and maps).
func deepCopy(v Value, t types.Type, seen map[*Cell]*Cell) Value {
	switch x := v.(type) {
	case *Term, *StrVal, nil:
		return v
	case *Cell:
		if x == nil {
			return x
		}
		if c, ok := seen[x]; ok {
			return c
		}
		nc := newCell(x.T)
		seen[x] = nc
		nc.Store(deepCopy(x.Load(), x.T, seen))
		return nc
	case *StructVal:
		st := t.Underlying().(*types.Struct)
		out := &StructVal{F: make([]Value, len(x.F))}
		for i := range x.F {
			out.F[i] = deepCopy(x.F[i], st.Field(i).Type(), seen)
		}
		return out
	case *ArrayVal:
		et := t.Underlying().(*types.Array).Elem()
		out := &ArrayVal{E: make([]Value, len(x.E))}
		for i := range x.E {
			out.E[i] = deepCopy(x.E[i], et, seen)
		}
		return out
	case *SliceVal:
		if x.Arr == nil {
			return &SliceVal{}
		}
		et := x.Arr.T.Underlying().(*types.Array).Elem()
		arr := newArrayCell(et, x.Len)
		for i := 0; i < x.Len; i++ {
			arr.Elem(i).Store(deepCopy(x.Arr.Elem(x.Off+i).Load(), et, seen))
		}
		return &SliceVal{Arr: arr, Len: x.Len, Cap: x.Len}
	case *MapObj:
		if x == nil {
			return x
		}
		out := &MapObj{KT: x.KT, VT: x.VT}
		for _, e := range x.E {
			out.E = append(out.E, &MapEntry{K: e.K, P: e.P, V: deepCopy(e.V, x.VT, seen)})
		}
		return out
	case *IfaceVal:
		if x == nil {
			return x
		}
		return &IfaceVal{T: x.T, V: deepCopy(x.V, x.T, seen)}
	case *FuncVal, *ChanObj:
		return v
	}
	unsupportedf("deepCopy of %T", v)
	return nil
}

func jsonMarshal(t *Thread, iv *IfaceVal) Value {
	noteStub("encoding/json.Marshal = opaque blob remembering the value; Unmarshal of it restores the value by field name")
	ex := t.ex
	ex.objN++
	id := ex.objN
	var b blob
	if iv != nil {
		b = blob{v: deepCopy(iv.V, iv.T, map[*Cell]*Cell{}), t: iv.T}
	}
	ex.blobs[fmt.Sprint(id)] = b
	// the text is opaque except for its first character, which tells the kind of JSON value, and for the
	// fact that JSON text contains no raw line breaks
	first := byte('{')
	if iv == nil {
		first = 'n'
	} else {
		v, vt := iv.V, iv.T
		for {
			if c, ok := v.(*Cell); ok {
				if c == nil {
					first = 'n'
					break
				}
				v, vt = c.Load(), c.T
				continue
			}
			break
		}
		if first != 'n' {
			switch vt.Underlying().(type) {
			case *types.Struct, *types.Map:
				first = '{'
				if m, ok := v.(*MapObj); ok && m == nil {
					first = 'n'
				}
			case *types.Slice, *types.Array:
				first = '['
				if sl, ok := v.(*SliceVal); ok && sl.Arr == nil {
					first = 'n'
				}
			case *types.Basic:
				switch {
				case isString(vt):
					first = '"'
				case isBoolT(vt):
					first = 't'
				default:
					first = '0'
				}
			}
		}
	}
	v0, v1 := MkVar(blobName(id, 0), 8), MkVar(blobName(id, 1), 8)
	for _, v := range []*Term{v0, v1} {
		ex.pc = append(ex.pc, Not(Eq(v, MkBV('\n', 8))), Not(Eq(v, MkBV('\r', 8))))
	}
	return byteSliceOf([]*Term{MkBV(uint64(first), 8), v0, v1})
}

func blobOf(ex *Exec, data *SliceVal) (blob, bool) {
	if data.Len < 3 {
		return blob{}, false
	}
	t0, ok := data.Arr.Elem(data.Off + 1).V.(*Term)
	if !ok || t0.Op != OpVar || !strings.HasPrefix(t0.Name, "jsonblob!") || !strings.HasSuffix(t0.Name, "!0") {
		return blob{}, false
	}
	// JSON text may be followed by white space (status files end with a newline)
	for i := 3; i < data.Len; i++ {
		b, ok := data.Arr.Elem(data.Off + i).V.(*Term)
		if !ok || !b.IsConst() || !(b.BV == '\n' || b.BV == ' ' || b.BV == '\t' || b.BV == '\r') {
			return blob{}, false
		}
	}
	t1, ok := data.Arr.Elem(data.Off + 2).V.(*Term)
	if !ok || t1.Op != OpVar || t1.Name != strings.TrimSuffix(t0.Name, "!0")+"!1" {
		return blob{}, false
	}
	id := strings.TrimSuffix(strings.TrimPrefix(t0.Name, "jsonblob!"), "!0")
	b, ok := ex.blobs[id]
	return b, ok
}

type jsonErr struct{ msg string }

// jsonUnmarshal implements json.Unmarshal(data, v) under the blob model; returns the error interface value.
func jsonUnmarshal(t *Thread, data *SliceVal, target *IfaceVal, lenient bool) Value {
	mkErr := func(s string) Value { return mkError(t, StrConst(s)) }
	if target == nil {
		return mkErr("json: Unmarshal(nil)")
	}
	ptr, ok := target.V.(*Cell)
	if _, isPtr := target.T.Underlying().(*types.Pointer); !isPtr || !ok || ptr == nil {
		return mkErr("json: Unmarshal(non-pointer)")
	}
	b, ok := blobOf(t.ex, data)
	if !ok {
		noteStub("encoding/json.Unmarshal of bytes that were not produced by Marshal: returns an error (successful decodes are covered by Havoc-built values)")
		return mkErr("invalid character looking for beginning of value")
	}
	var res Value = (*IfaceVal)(nil)
	func() {
		defer func() {
			if r := recover(); r != nil {
				if je, ok := r.(*jsonErr); ok {
					res = mkErr("json: cannot unmarshal: " + je.msg)
					return
				}
				panic(r)
			}
		}()
		jsonAssign(t, ptr, b.v, b.t)
	}()
	return res
}

type jfield struct {
	name string
	path []int
	typ  types.Type
	omit bool // `json:",omitempty"`: an empty value is left out of the encoding, so decoding leaves the destination untouched
}

// jsonEmpty reports whether encoding/json's omitempty would leave the value out (false, 0, nil pointer / interface,
// empty map / slice / string). Only concretely empty values count; a symbolic scalar is kept.
func jsonEmpty(v Value) bool {
	switch x := v.(type) {
	case nil:
		return true
	case *IfaceVal:
		return x == nil
	case *Cell:
		return x == nil
	case *MapObj:
		return x == nil || len(x.E) == 0
	case *SliceVal:
		return x == nil || x.Len == 0
	case *StrVal:
		return len(x.B) == 0
	case *Term:
		if x.IsConst() {
			if x.W == WBool {
				return !x.B
			}
			if x.W == WReal {
				return x.Rat.Sign() == 0
			}
			return x.BV == 0
		}
	}
	return false
}

func jsonFieldName(f *types.Var, tag string) (string, bool) {
	if !f.Exported() && !f.Anonymous() {
		return "", false
	}
	name := f.Name()
	if jt, ok := reflect.StructTag(tag).Lookup("json"); ok {
		parts := strings.Split(jt, ",")
		if parts[0] == "-" {
			return "", false
		}
		if parts[0] != "" {
			name = parts[0]
		}
	}
	return name, true
}

// flatFields lists the JSON-visible fields of a struct type, flattening embedded structs.
func flatFields(st *types.Struct, prefix []int, out *[]jfield) {
	for i := 0; i < st.NumFields(); i++ {
		f := st.Field(i)
		path := append(append([]int{}, prefix...), i)
		if f.Anonymous() {
			ft := f.Type()
			if p, ok := ft.Underlying().(*types.Pointer); ok {
				ft = p.Elem()
			}
			if est, ok := ft.Underlying().(*types.Struct); ok && !isNamed(ft, "time", "Time") {
				if _, hasTag := reflect.StructTag(st.Tag(i)).Lookup("json"); !hasTag {
					flatFields(est, path, out)
					continue
				}
			}
		}
		name, ok := jsonFieldName(f, st.Tag(i))
		if !ok {
			continue
		}
		omit := false
		if jt, ok := reflect.StructTag(st.Tag(i)).Lookup("json"); ok {
			for _, opt := range strings.Split(jt, ",")[1:] {
				if opt == "omitempty" {
					omit = true
				}
			}
		}
		*out = append(*out, jfield{name: name, path: path, typ: f.Type(), omit: omit})
	}
}

// srcField fetches a flattened field from a struct value; ok=false if an embedded pointer on the way is nil.
func srcField(v *StructVal, st *types.Struct, path []int) (Value, bool) {
	cur := Value(v)
	curT := types.Type(st)
	for _, idx := range path {
		if c, isPtr := cur.(*Cell); isPtr {
			if c == nil {
				return nil, false
			}
			cur = c.Load()
			curT = c.T
		}
		sv := cur.(*StructVal)
		s := curT.Underlying().(*types.Struct)
		cur = sv.F[idx]
		curT = s.Field(idx).Type()
	}
	return cur, true
}

func jsonAssign(t *Thread, dst *Cell, src Value, srcT types.Type) {
	fail := func(f string, a ...interface{}) { panic(&jsonErr{fmt.Sprintf(f, a...)}) }
	// unwrap source interfaces / pointers
	for {
		if iv, ok := src.(*IfaceVal); ok {
			if iv == nil {
				src, srcT = nil, nil
				break
			}
			src, srcT = iv.V, iv.T
			continue
		}
		if c, ok := src.(*Cell); ok {
			if c == nil {
				src, srcT = nil, nil
				break
			}
			src, srcT = c.Load(), c.T
			continue
		}
		break
	}
	dT := dst.T
	if src == nil { // JSON null
		switch dT.Underlying().(type) {
		case *types.Pointer, *types.Map, *types.Slice, *types.Interface:
			dst.Store(zeroValue(dT))
		}
		return
	}
	if isNamed(dT, "time", "Time") {
		if srcT != nil && isNamed(srcT, "time", "Time") {
			dst.Store(src)
			return
		}
		fail("time.Time from %s", srcT)
	}
	switch du := dT.Underlying().(type) {
	case *types.Pointer:
		p := dst.V.(*Cell)
		if p == nil {
			p = newCell(du.Elem())
			dst.V = p
		}
		jsonAssign(t, p, src, srcT)
	case *types.Interface:
		if du.NumMethods() != 0 {
			fail("non-empty interface target")
		}
		if cur, ok := dst.V.(*IfaceVal); ok && cur != nil {
			if pc, ok := cur.V.(*Cell); ok && pc != nil {
				if _, isPtr := cur.T.Underlying().(*types.Pointer); isPtr {
					// json decodes into the pointee of a non-nil pointer held by an interface{}
					jsonAssign(t, pc, src, srcT)
					return
				}
			}
		}
		dst.V = toJSONAny(t, src, srcT)
	case *types.Struct:
		ss, ok := src.(*StructVal)
		if !ok {
			if sm, ok := src.(*MapObj); ok {
				// object held as map[string]...: assign by key
				var dfs []jfield
				flatFields(du, nil, &dfs)
				for _, df := range dfs {
					v, found := t.mapLookup(sm, StrConst(df.name), sm.VT)
					if t.ex.branch(found) {
						jsonAssign(t, dstPath(dst, df.path), v, sm.VT)
					}
				}
				return
			}
			fail("object expected for struct %s, have %s", dT, srcT)
		}
		sst := srcT.Underlying().(*types.Struct)
		var sfs, dfs []jfield
		flatFields(sst, nil, &sfs)
		flatFields(du, nil, &dfs)
		for _, df := range dfs {
			for _, sf := range sfs {
				if !strings.EqualFold(sf.name, df.name) {
					continue
				}
				v, ok := srcField(ss, sst, sf.path)
				if !ok {
					continue
				}
				if sf.omit && jsonEmpty(v) {
					continue
				}
				jsonAssign(t, dstPath(dst, df.path), v, sf.typ)
			}
		}
	case *types.Map:
		sm, ok := src.(*MapObj)
		if !ok {
			if ss, ok := src.(*StructVal); ok && isString(du.Key()) {
				// struct encoded as object, decoded into a map
				m, _ := dst.V.(*MapObj)
				if m == nil {
					m = &MapObj{KT: du.Key(), VT: du.Elem()}
					dst.V = m
				}
				sst := srcT.Underlying().(*types.Struct)
				var sfs []jfield
				flatFields(sst, nil, &sfs)
				for _, sf := range sfs {
					v, ok := srcField(ss, sst, sf.path)
					if !ok {
						continue
					}
					if sf.omit && jsonEmpty(v) {
						continue
					}
					tmp := newCell(du.Elem())
					jsonAssign(t, tmp, v, sf.typ)
					t.mapUpdate(m, StrConst(sf.name), tmp.Load())
				}
				return
			}
			fail("object expected for map, have %s", srcT)
		}
		if sm == nil {
			dst.V = (*MapObj)(nil)
			return
		}
		m, _ := dst.V.(*MapObj)
		if m == nil {
			m = &MapObj{KT: du.Key(), VT: du.Elem()}
			dst.V = m
		}
		for _, e := range sm.E {
			tmp := newCell(du.Elem())
			jsonAssign(t, tmp, e.V, sm.VT)
			if e.P.IsConst() && e.P.B {
				t.mapUpdate(m, e.K, tmp.Load())
			} else if !(e.P.IsConst() && !e.P.B) {
				// symbolic presence: insert as a conditional entry (keys of a decoded object are distinct)
				m.E = append(m.E, &MapEntry{K: e.K, P: e.P, V: tmp.Load()})
			}
		}
	case *types.Slice:
		ssl, ok := src.(*SliceVal)
		if !ok {
			if s, ok := src.(*StrVal); ok && typeWidth(du.Elem()) == 8 {
				_ = s
				fail("base64 []byte decoding not modelled")
			}
			fail("array expected for slice, have %s", srcT)
		}
		if ssl.Arr == nil {
			dst.V = &SliceVal{}
			return
		}
		arr := newArrayCell(du.Elem(), ssl.Len)
		set := ssl.Arr.T.Underlying().(*types.Array).Elem()
		for i := 0; i < ssl.Len; i++ {
			jsonAssign(t, arr.Elem(i), ssl.Arr.Elem(ssl.Off+i).Load(), set)
		}
		dst.V = &SliceVal{Arr: arr, Len: ssl.Len, Cap: ssl.Len}
	case *types.Basic:
		switch s := src.(type) {
		case *StrVal:
			if du.Info()&types.IsString == 0 {
				fail("string into %s", dT)
			}
			dst.V = s
		case *Term:
			switch {
			case s.W == WBool:
				if du.Info()&types.IsBoolean == 0 {
					fail("bool into %s", dT)
				}
				dst.V = s
			case du.Info()&types.IsFloat != 0:
				if s.W == WReal {
					dst.V = s
				} else {
					dst.V = BV2Real(s, isSigned(srcT))
				}
			case du.Info()&types.IsInteger != 0:
				if s.W == WReal {
					fail("float into integer not modelled")
				}
				w := basicWidth(du)
				dst.V = toWidth(s, srcT, w)
				if w < s.W {
					dst.V = Extract(s, w-1, 0)
				}
			default:
				fail("number into %s", dT)
			}
		default:
			fail("%T into %s", src, dT)
		}
	default:
		fail("unsupported target %s", dT)
	}
}

func dstPath(dst *Cell, path []int) *Cell {
	cur := dst
	for _, idx := range path {
		if p, ok := cur.T.Underlying().(*types.Pointer); ok {
			pc := cur.V.(*Cell)
			if pc == nil {
				pc = newCell(p.Elem())
				cur.V = pc
			}
			cur = pc
		}
		cur = cur.Sub[idx]
	}
	return cur
}

var (
	tAny       = types.NewInterfaceType(nil, nil).Complete()
	tMapAny    = types.NewMap(types.Typ[types.String], tAny)
	tSliceAny  = types.NewSlice(tAny)
	tFloat64   = types.Typ[types.Float64]
	tStringTyp = types.Typ[types.String]
	tBoolTyp   = types.Typ[types.Bool]
)

// toJSONAny converts a Go value to what encoding/json stores in an interface{}.
func toJSONAny(t *Thread, src Value, srcT types.Type) Value {
	switch s := src.(type) {
	case nil:
		return (*IfaceVal)(nil)
	case *IfaceVal:
		if s == nil {
			return s
		}
		return toJSONAny(t, s.V, s.T)
	case *Cell:
		if s == nil {
			return (*IfaceVal)(nil)
		}
		return toJSONAny(t, s.Load(), s.T)
	case *StrVal:
		return &IfaceVal{T: tStringTyp, V: s}
	case *Term:
		switch {
		case s.W == WBool:
			return &IfaceVal{T: tBoolTyp, V: s}
		case s.W == WReal:
			return &IfaceVal{T: tFloat64, V: s}
		}
		return &IfaceVal{T: tFloat64, V: BV2Real(s, isSigned(srcT))}
	case *MapObj:
		if s == nil {
			return (*IfaceVal)(nil)
		}
		m := &MapObj{KT: tStringTyp, VT: tAny}
		for _, e := range s.E {
			m.E = append(m.E, &MapEntry{K: e.K, P: e.P, V: toJSONAny(t, e.V, s.VT)})
		}
		return &IfaceVal{T: tMapAny, V: m}
	case *SliceVal:
		if s.Arr == nil {
			return (*IfaceVal)(nil)
		}
		et := s.Arr.T.Underlying().(*types.Array).Elem()
		arr := newArrayCell(tAny, s.Len)
		for i := 0; i < s.Len; i++ {
			arr.Elem(i).V = toJSONAny(t, s.Arr.Elem(s.Off+i).Load(), et)
		}
		return &IfaceVal{T: tSliceAny, V: &SliceVal{Arr: arr, Len: s.Len, Cap: s.Len}}
	case *StructVal:
		st := srcT.Underlying().(*types.Struct)
		var sfs []jfield
		flatFields(st, nil, &sfs)
		m := &MapObj{KT: tStringTyp, VT: tAny}
		for _, sf := range sfs {
			v, ok := srcField(s, st, sf.path)
			if !ok {
				continue
			}
			m.E = append(m.E, &MapEntry{K: StrConst(sf.name), P: TTrue, V: toJSONAny(t, v, sf.typ)})
		}
		return &IfaceVal{T: tMapAny, V: m}
	}
	unsupportedf("toJSONAny of %T", src)
	return nil
}

func init() {
	intrinsics["encoding/json.Marshal"] = func(t *Thread, fn *ssa.Function, a []Value) Value {
		iv, _ := a[0].(*IfaceVal)
		return Tuple{jsonMarshal(t, iv), (*IfaceVal)(nil)}
	}
	intrinsics["encoding/json.Unmarshal"] = func(t *Thread, fn *ssa.Function, a []Value) Value {
		iv, _ := a[1].(*IfaceVal)
		return jsonUnmarshal(t, a[0].(*SliceVal), iv, false)
	}
}
