package gosym

import (
	"go/types"
	"regexp"
	"regexp/syntax"
	"unicode"

	"golang.org/x/tools/go/ssa"
)

// regexp model. regexp.Compile(p) with a CONCRETE pattern runs the real regexp/syntax parser and
// compiler at encode time; the resulting syntax.Prog (the same instruction list the real matcher
// interprets) is simulated symbolically, Pike-VM style, over a subject string of concrete length whose
// bytes are SMT terms: the set of live program counters after each byte is a vector of boolean terms.
// MatchString is an unanchored search (a thread is started at every position), exactly as in regexp.
// Subject bytes are assumed ASCII (< 0x80) - one byte per rune; recorded as outside the claim.

type regexObj struct {
	prog *syntax.Prog
	src  string
}

func compileRegex(pat string) (*regexObj, error) {
	re, err := syntax.Parse(pat, syntax.Perl)
	if err != nil {
		return nil, err
	}
	// mirror regexp.compile: reject patterns with too many capture groups etc. is irrelevant here
	prog, err := syntax.Compile(re.Simplify())
	if err != nil {
		return nil, err
	}
	return &regexObj{prog: prog, src: pat}, nil
}

// epsClosure lists the instructions reachable from pc through empty transitions at a position with
// the given empty-width flags. ok=false if a word-boundary assertion is met (depends on symbolic bytes).
func (r *regexObj) epsClosure(pc uint32, flags syntax.EmptyOp, wordKnown bool, seen map[uint32]bool, out *[]uint32) bool {
	if seen[pc] {
		return true
	}
	seen[pc] = true
	in := &r.prog.Inst[pc]
	switch in.Op {
	case syntax.InstFail:
		return true
	case syntax.InstAlt, syntax.InstAltMatch:
		return r.epsClosure(in.Out, flags, wordKnown, seen, out) && r.epsClosure(in.Arg, flags, wordKnown, seen, out)
	case syntax.InstNop, syntax.InstCapture:
		return r.epsClosure(in.Out, flags, wordKnown, seen, out)
	case syntax.InstEmptyWidth:
		need := syntax.EmptyOp(in.Arg)
		if need&(syntax.EmptyWordBoundary|syntax.EmptyNoWordBoundary) != 0 && !wordKnown {
			return false
		}
		if need&^flags == 0 {
			return r.epsClosure(in.Out, flags, wordKnown, seen, out)
		}
		return true
	default: // InstMatch, InstRune*
		*out = append(*out, pc)
		return true
	}
}

func runeMatchTerm(in *syntax.Inst, b *Term) *Term {
	c := func(r rune) *Term { return MkBV(uint64(r), 8) }
	switch in.Op {
	case syntax.InstRuneAny:
		return TTrue
	case syntax.InstRuneAnyNotNL:
		return Not(Eq(b, c('\n')))
	}
	// InstRune / InstRune1: in.Rune is a list of ranges (or a single rune); FoldCase flag for single runes
	rs := in.Rune
	fold := syntax.Flags(in.Arg)&syntax.FoldCase != 0
	var alts []*Term
	one := func(lo, hi rune) {
		if lo > 0x7f {
			return
		}
		if hi > 0x7f {
			hi = 0x7f
		}
		if lo == hi {
			alts = append(alts, Eq(b, c(lo)))
		} else {
			alts = append(alts, And(BVCmp(OpULE, c(lo), b), BVCmp(OpULE, b, c(hi))))
		}
	}
	if len(rs) == 1 {
		one(rs[0], rs[0])
		if fold {
			for f := unicode.SimpleFold(rs[0]); f != rs[0]; f = unicode.SimpleFold(f) {
				one(f, f)
			}
		}
		return Or(alts...)
	}
	for i := 0; i+1 < len(rs); i += 2 {
		one(rs[i], rs[i+1])
	}
	return Or(alts...)
}

// matchTerm builds the boolean term "the program matches somewhere in s" (anchored=false, regexp.MatchString)
// or "the program matches all of s from position 0 to the end" (anchored=true).
func (r *regexObj) matchTerm(t *Thread, s *StrVal, anchored bool) *Term {
	n := len(s.B)
	for _, b := range s.B {
		if b.IsConst() {
			if b.BV >= 0x80 {
				unsupportedf("regexp on non-ASCII subject")
			}
			continue
		}
		t.ex.H.noteOutside("regexp: subject bytes >= 0x80 (multi-byte runes) are excluded")
		t.ex.assume(BVCmp(OpULT, b, MkBV(0x80, 8)))
	}
	flagsAt := func(i int) syntax.EmptyOp {
		var f syntax.EmptyOp
		if i == 0 {
			f |= syntax.EmptyBeginText | syntax.EmptyBeginLine
		}
		if i == n {
			f |= syntax.EmptyEndText | syntax.EmptyEndLine
		}
		// line flags next to a concrete newline; a symbolic neighbour makes (?m) patterns unsupported below
		if i > 0 && s.B[i-1].IsConst() && s.B[i-1].BV == '\n' {
			f |= syntax.EmptyBeginLine
		}
		if i < n && s.B[i].IsConst() && s.B[i].BV == '\n' {
			f |= syntax.EmptyEndLine
		}
		return f
	}
	for _, in := range r.prog.Inst {
		if in.Op == syntax.InstEmptyWidth {
			need := syntax.EmptyOp(in.Arg)
			if need&(syntax.EmptyWordBoundary|syntax.EmptyNoWordBoundary) != 0 {
				unsupportedf("regexp %q uses a word-boundary assertion (not modelled)", r.src)
			}
			if need&(syntax.EmptyBeginLine|syntax.EmptyEndLine) != 0 {
				for _, b := range s.B {
					if !b.IsConst() {
						t.ex.H.noteOutside("regexp (?m): subject bytes equal to newline are excluded")
						t.ex.assume(Not(Eq(b, MkBV('\n', 8))))
					}
				}
			}
		}
	}
	matched := TFalse
	cur := map[uint32]*Term{} // seed threads at position i (before closure)
	cur[uint32(r.prog.Start)] = TTrue
	for i := 0; i <= n; i++ {
		if !anchored && i > 0 {
			cur[uint32(r.prog.Start)] = TTrue
		}
		// closure
		live := map[uint32]*Term{}
		for pc, c := range cur {
			var out []uint32
			if !r.epsClosure(pc, flagsAt(i), false, map[uint32]bool{}, &out) {
				unsupportedf("regexp %q: word boundary", r.src)
			}
			for _, q := range out {
				if old, ok := live[q]; ok {
					live[q] = Or(old, c)
				} else {
					live[q] = c
				}
			}
		}
		next := map[uint32]*Term{}
		for pc, c := range live {
			in := &r.prog.Inst[pc]
			if in.Op == syntax.InstMatch {
				if !anchored || i == n {
					matched = Or(matched, c)
				}
				continue
			}
			if i == n {
				continue
			}
			step := And(c, runeMatchTerm(in, s.B[i]))
			if step.IsConst() && !step.B {
				continue
			}
			if old, ok := next[in.Out]; ok {
				next[in.Out] = Or(old, step)
			} else {
				next[in.Out] = step
			}
		}
		cur = next
	}
	return matched
}

func init() {
	I := intrinsics
	mkRegexp := func(t *Thread, fn *ssa.Function, pat Value) (Value, error) {
		p, ok := pat.(*StrVal).Concrete()
		if !ok {
			unsupportedf("regexp.Compile of a symbolic pattern (patterns must be concrete; subjects may be symbolic)")
		}
		noteStub("regexp.Compile/MatchString = real regexp/syntax parser+compiler at encode time, symbolic Pike-VM simulation of the program over ASCII subject bytes")
		obj, err := compileRegex(p)
		if err != nil {
			return nil, err
		}
		rp := t.ex.prog.SSA.ImportedPackage("regexp")
		c := newCell(rp.Type("Regexp").Type())
		c.Tag = obj
		return c, nil
	}
	I["regexp.Compile"] = func(t *Thread, fn *ssa.Function, a []Value) Value {
		c, err := mkRegexp(t, fn, a[0])
		if err != nil {
			return Tuple{(*Cell)(nil), mkError(t, StrConst("error parsing regexp: "+err.Error()))}
		}
		return Tuple{c, (*IfaceVal)(nil)}
	}
	I["regexp.MustCompile"] = func(t *Thread, fn *ssa.Function, a []Value) Value {
		c, err := mkRegexp(t, fn, a[0])
		if err != nil {
			panic(&goPanic{msg: "regexp: Compile: " + err.Error()})
		}
		return c
	}
	I["(*regexp.Regexp).MatchString"] = func(t *Thread, fn *ssa.Function, a []Value) Value {
		c, _ := a[0].(*Cell)
		if c == nil {
			rtPanic("invalid memory address or nil pointer dereference")
		}
		obj, ok := c.Tag.(*regexObj)
		if !ok {
			unsupportedf("MatchString on a Regexp not created by the model")
		}
		return obj.matchTerm(t, a[1].(*StrVal), false)
	}
	I["(*regexp.Regexp).Match"] = func(t *Thread, fn *ssa.Function, a []Value) Value {
		c, _ := a[0].(*Cell)
		if c == nil {
			rtPanic("invalid memory address or nil pointer dereference")
		}
		obj, ok := c.Tag.(*regexObj)
		if !ok {
			unsupportedf("Match on a Regexp not created by the model")
		}
		return obj.matchTerm(t, &StrVal{B: sliceBytes(a[1].(*SliceVal))}, false)
	}
	// FindSubmatch on a CONCRETE subject: the real regexp package decides at encode time
	I["(*regexp.Regexp).FindSubmatch"] = func(t *Thread, fn *ssa.Function, a []Value) Value {
		c, _ := a[0].(*Cell)
		if c == nil {
			rtPanic("invalid memory address or nil pointer dereference")
		}
		obj, ok := c.Tag.(*regexObj)
		if !ok {
			unsupportedf("FindSubmatch on a Regexp not created by the model")
		}
		sl := a[1].(*SliceVal)
		subj := make([]byte, 0, sl.Len)
		for _, b := range sliceBytes(sl) {
			if !b.IsConst() {
				unsupportedf("regexp.FindSubmatch on a subject with symbolic bytes (only concrete subjects are modelled)")
			}
			subj = append(subj, byte(b.BV))
		}
		noteStub("regexp.FindSubmatch: concrete pattern and concrete subject, decided by the real regexp package at encode time")
		m := regexp.MustCompile(obj.src).FindSubmatch(subj)
		bt := types.NewSlice(types.Typ[types.Byte])
		if m == nil {
			return &SliceVal{}
		}
		arr := newArrayCell(bt, len(m))
		for i, g := range m {
			ts := make([]*Term, len(g))
			for j, ch := range g {
				ts[j] = MkBV(uint64(ch), 8)
			}
			arr.Elem(i).V = byteSliceOf(ts)
		}
		return &SliceVal{Arr: arr, Len: len(m), Cap: len(m)}
	}
	// verifapi.FullMatch(pattern, s): reference semantics "all of s is in the language of pattern"
	I[apiP+"FullMatch"] = func(t *Thread, fn *ssa.Function, a []Value) Value {
		p := concreteStr(a[0], "FullMatch pattern")
		obj, err := compileRegex(p)
		if err != nil {
			unsupportedf("FullMatch: pattern %q does not compile: %v", p, err)
		}
		return obj.matchTerm(t, a[1].(*StrVal), true)
	}
	I[apiP+"Compiles"] = func(t *Thread, fn *ssa.Function, a []Value) Value {
		_, err := compileRegex(concreteStr(a[0], "Compiles pattern"))
		return MkBool(err == nil)
	}
	_ = types.Typ
}
