package main

import (
	"encoding/json"
	"flag"
	"fmt"
	"os"
	"regexp"
	"sort"
	"strings"
	"time"

	"verif/engine/gosym"
)

type output struct {
	Harnesses []*gosym.HarnessSummary `json:"harnesses"`
	LoadS     float64                 `json:"load_s"`
	WallS     float64                 `json:"wall_s"`
	Queries   int                     `json:"solver_queries"`
	Sat       int                     `json:"solver_sat"`
	Unsat     int                     `json:"solver_unsat"`
	Unknown   int                     `json:"solver_unknown"`
	Fallbacks int                     `json:"solver_oneshot_fallbacks"`
	SolverS   float64                 `json:"solver_s"`
	Solver    string                  `json:"solver"`
	Stubs     []string                `json:"stubs_used"`
	Error     string                  `json:"error,omitempty"`
	Tier      string                  `json:"tier"`
}

func main() {
	repo := flag.String("repo", "/repo", "repository root")
	hdir := flag.String("harness", "/verif/harness", "harness directory")
	pkgs := flag.String("pkgs", "", "comma separated package patterns (relative to repo)")
	run := flag.String("run", "Verif_", "regexp selecting harness functions")
	known := flag.String("known", "", "known findings file (JSON lines)")
	out := flag.String("out", "", "output JSON file")
	workers := flag.Int("workers", 16, "parallel workers")
	tier := flag.String("tier", "quick", "quick|thorough")
	solver := flag.String("solver", "z3", "z3|z3-new|cvc5")
	timeout := flag.Int("timeout", 20000, "per-query solver timeout (ms)")
	maxPaths := flag.Int("maxpaths", 0, "override path bound")
	verbose := flag.Bool("v", false, "verbose")
	flag.Parse()

	res := &output{Tier: *tier, Solver: *solver}
	fail := func(err error) {
		res.Error = err.Error()
		write(*out, res)
		fmt.Fprintln(os.Stderr, "gosym:", err)
		os.Exit(2)
	}
	start := time.Now()
	prog, err := gosym.Load(*repo, *hdir, strings.Split(*pkgs, ","))
	if err != nil {
		fail(err)
	}
	res.LoadS = time.Since(start).Seconds()
	re, err := regexp.Compile(*run)
	if err != nil {
		fail(err)
	}
	fns := prog.Harnesses(re)
	if len(fns) == 0 {
		fail(fmt.Errorf("no harness matches %q", *run))
	}
	opt := gosym.DefaultOptions()
	opt.Workers = *workers
	opt.Solver = *solver
	opt.SolverTimeout = *timeout
	if *maxPaths > 0 {
		opt.MaxPaths = *maxPaths
	}
	r := &gosym.Run{Prog: prog, Opt: opt, Tier: *tier}
	if *known != "" {
		if b, err := os.ReadFile(*known); err == nil {
			for _, line := range strings.Split(string(b), "\n") {
				line = strings.TrimSpace(line)
				if line == "" || strings.HasPrefix(line, "#") {
					continue
				}
				var k gosym.KnownEntry
				if err := json.Unmarshal([]byte(line), &k); err != nil {
					fail(fmt.Errorf("known findings: %v", err))
				}
				r.Known = append(r.Known, k)
			}
		}
	}
	hs := r.Explore(fns)
	for _, h := range hs {
		s := h.Summary()
		res.Harnesses = append(res.Harnesses, s)
		if *verbose {
			fmt.Fprintf(os.Stderr, "%-44s paths=%-6d obl=%d/%d viol=%d known=%d inconcl=%v unsupp=%v %.1fs\n", s.Name, s.Paths, s.Discharged, s.Obligations,
				len(s.Violations), len(s.KnownHits), s.Inconclusive, s.Unsupported, s.WallS)
		}
	}
	res.Queries, res.Sat, res.Unsat, res.Unknown = r.SolverQueries, r.SolverSat, r.SolverUnsat, r.SolverUnknown
	res.SolverS = r.SolverTime.Seconds()
	res.Fallbacks = r.SolverFallbacks
	for s := range gosym.StubsUsed {
		res.Stubs = append(res.Stubs, s)
	}
	sort.Strings(res.Stubs)
	res.WallS = time.Since(start).Seconds()
	write(*out, res)
}

func write(path string, res *output) {
	b, _ := json.MarshalIndent(res, "", " ")
	if path == "" {
		os.Stdout.Write(b)
		fmt.Println()
		return
	}
	os.WriteFile(path, b, 0o644)
}
