#!/usr/bin/env python3
"""Driver for the solver-based checks: check.py <property id> [--tier quick|thorough]

Runs gosym (bounded symbolic execution of /repo's current tree with the harnesses of the
property), replays every counterexample natively, and writes /verif/evidence/<id>.json.
Exit 0: every obligation discharged (listed known findings are printed as KNOWN-FINDING);
exit 1: "VIOLATION property=<id> replay=<path>" for a violation not listed in known_findings.json;
exit 2: INCONCLUSIVE (harness does not compile against the tree, unsupported construct, solver unknown).
"""
import json, os, re, shutil, subprocess, sys, tempfile, time, glob

VERIF = os.path.dirname(os.path.abspath(__file__))
REPO = os.environ.get("VERIF_REPO", "/repo")
# assertions about state that only the engine can observe: held locks and blocked goroutines (natively verifapi.HeldLocks()
# is 0 and verifapi.Blocked() is true, so a native replay of such a violation passes by construction)
ENGINE_ONLY_ASSERTIONS = {"no-lock-left-held", "lock-released", "all-background-activity-stopped", "no-goroutine-left-behind"}
GOSYM = os.path.join(VERIF, "bin", "gosym")
HARNESS = os.path.join(VERIF, "harness")
KNOWN = os.path.join(VERIF, "known_findings.json")
GOENV = dict(os.environ, GOFLAGS="-mod=mod", GOPROXY="off", GOSUMDB="off", GOTOOLCHAIN="local")

sys.path.insert(0, VERIF)
from checks import CHECKS  # noqa: E402


def build_engine():
    src_newer = False
    if os.path.exists(GOSYM):
        t = os.path.getmtime(GOSYM)
        for root, _, files in os.walk(os.path.join(VERIF, "engine")):
            for f in files:
                if os.path.getmtime(os.path.join(root, f)) > t:
                    src_newer = True
    if not os.path.exists(GOSYM) or src_newer:
        os.makedirs(os.path.dirname(GOSYM), exist_ok=True)
        subprocess.run(["go", "build", "-o", GOSYM, "./cmd/gosym"], cwd=os.path.join(VERIF, "engine"), env=GOENV, check=True)


def load_known():
    out = []
    if os.path.exists(KNOWN):
        for line in open(KNOWN):
            line = line.strip()
            if line and not line.startswith("#"):
                out.append(json.loads(line))
    return out


def harness_pkg_dirs(pid):
    """package dirs (relative to repo) holding harness files of this property."""
    dirs = {}
    for path in glob.glob(os.path.join(HARNESS, "**", "*.go"), recursive=True):
        rel = os.path.relpath(path, HARNESS)
        d = os.path.dirname(rel)
        if d == "verifapi":
            continue
        txt = open(path).read()
        for m in re.finditer(r"^func (Verif_%s_\w+)\(\)" % pid, txt, re.M):
            dirs.setdefault(d, []).append(m.group(1))
    return dirs


def find_harness_dir(name):
    for path in glob.glob(os.path.join(HARNESS, "**", "*.go"), recursive=True):
        if re.search(r"^func %s\(\)" % re.escape(name), open(path).read(), re.M):
            return os.path.dirname(os.path.relpath(path, HARNESS))
    return None


def overlay_for(pkgdir, tmp, extra_test):
    """go test overlay: harness files of pkgdir + verifapi + generated test file."""
    rep = {}
    for path in glob.glob(os.path.join(HARNESS, "verifapi", "*.go")):
        rep[os.path.join(REPO, "internal", "verifapi", os.path.basename(path))] = path
    pkgname = None
    for path in glob.glob(os.path.join(HARNESS, pkgdir, "*.go")):
        rep[os.path.join(REPO, pkgdir, "zz_verif_" + os.path.basename(path))] = path
        m = re.search(r"^package (\w+)", open(path).read(), re.M)
        if m:
            pkgname = m.group(1)
    tf = os.path.join(tmp, "zz_verif_replay_test.go")
    open(tf, "w").write(extra_test.replace("PKGNAME", pkgname))
    rep[os.path.join(REPO, pkgdir, "zz_verif_replay_test.go")] = tf
    ov = os.path.join(tmp, "overlay.json")
    json.dump({"Replace": rep}, open(ov, "w"))
    return ov


REPLAY_TEST = '''package PKGNAME

import (
	"os"
	"strings"
	"testing"

	"github.com/ansible/receptor/internal/verifapi"
)

var verifHarnesses = map[string]func(){
HARNESSMAP}

func TestVerifReplay(t *testing.T) {
	// VERIF_REPLAY = name=cexfile[,name=cexfile...]; each is run in order in this process
	for _, item := range strings.Split(os.Getenv("VERIF_REPLAY"), ",") {
		kv := strings.SplitN(item, "=", 2)
		if len(kv) != 2 {
			continue
		}
		f, ok := verifHarnesses[kv[0]]
		if !ok {
			t.Fatalf("unknown harness %s", kv[0])
		}
		verifapi.Reset(kv[1])
		f()
		println("VERIF-REPLAY-DONE", kv[0])
	}
}
'''


_BINS = {}


def native_build(pkgdir, names):
    """compiles the replay test binary of a package once per check run."""
    key = (pkgdir, tuple(sorted(set(names))))
    if key in _BINS:
        return _BINS[key]
    tmp = tempfile.mkdtemp(prefix="verif.replay.")
    _TMPDIRS.append(tmp)
    hm = "".join('\t"%s": %s,\n' % (n, n) for n in sorted(set(names)))
    ov = overlay_for(pkgdir, tmp, REPLAY_TEST.replace("HARNESSMAP", hm))
    binp = os.path.join(tmp, "replay.test")
    p = subprocess.run(["go", "test", "-c", "-vet=off", "-overlay", ov, "-o", binp, "./" + pkgdir], cwd=REPO, env=GOENV,
                       stdout=subprocess.PIPE, stderr=subprocess.STDOUT, text=True, errors="replace")
    if p.returncode != 0 or not os.path.exists(binp):
        _BINS[key] = (None, "[build failed]\n" + p.stdout[-3000:])
    else:
        _BINS[key] = (binp, "")
    return _BINS[key]


_TMPDIRS = []


def native_cleanup():
    for d in _TMPDIRS:
        shutil.rmtree(d, ignore_errors=True)
    _TMPDIRS.clear()
    _BINS.clear()


def native_run(pkgdir, names, items, timeout):
    """items: list of (harness, cexpath). Returns (returncode, output)."""
    binp, err = native_build(pkgdir, names)
    if binp is None:
        return 1, err
    env = dict(GOENV, VERIF_REPLAY=",".join("%s=%s" % it for it in items))
    cmd = [binp, "-test.run", "^TestVerifReplay$", "-test.v", "-test.count=1", "-test.timeout", "%ds" % timeout]
    try:
        p = subprocess.run(cmd, cwd=os.path.join(REPO, pkgdir), env=env, stdout=subprocess.PIPE, stderr=subprocess.STDOUT,
                           timeout=timeout + 60, text=True, errors="replace")
        return p.returncode, p.stdout
    except subprocess.TimeoutExpired as e:
        o = e.stdout or ""
        if isinstance(o, bytes):
            o = o.decode(errors="replace")
        return 124, o + "\nVERIF-REPLAY-TIMEOUT"


_CRASH_CACHE = {}


def crash_native(script, assertion):
    """real crash replay: the real code in a child process killed by strace at each of its write/ftruncate calls."""
    if script not in _CRASH_CACHE:
        p = subprocess.run([sys.executable, os.path.join(VERIF, script)], env=GOENV, stdout=subprocess.PIPE, stderr=subprocess.STDOUT, text=True)
        _CRASH_CACHE[script] = p.stdout
    out = _CRASH_CACHE[script]
    if "RESULT reproduced=true" in out:
        return "assert:" + assertion, out
    if "RESULT reproduced=false" in out:
        return "not-reproduced", out
    if "RESULT reproduced=unavailable" in out:
        return "not-replayed", out
    return "replay-error", out


def classify(rc, out):
    if "[build failed]" in out or "[setup failed]" in out:
        return "build-failed"
    if "VERIF-REPLAY-ERROR" in out:
        return "replay-error"
    if "VERIF-ASSUME-FALSE" in out:
        return "assume-false"
    m = re.search(r"VERIF-ASSERT-FAILED (\S+)", out)
    if m:
        return "assert:" + m.group(1)
    if "test timed out" in out or "VERIF-REPLAY-TIMEOUT" in out or "all goroutines are asleep" in out:
        return "hang"
    if re.search(r"^panic: |^fatal error: ", out, re.M):
        return "panic"
    if rc == 0:
        return "pass"
    return "fail-other"


def main():
    if len(sys.argv) < 2:
        print(__doc__)
        return 2
    pid = sys.argv[1]
    tier = os.environ.get("VERIF_TIER", "quick")
    if "--tier" in sys.argv:
        tier = sys.argv[sys.argv.index("--tier") + 1]
    seed = int(os.environ.get("VERIF_SEED", "0") or 0)
    cfg = CHECKS[pid]
    GOENV["VERIF_TIER"] = tier  # the native replay must take the same tier-dependent branches as the engine run
    t0 = time.time()
    build_engine()
    tmp = tempfile.mkdtemp(prefix="verif.%s." % pid)
    evidence_path = os.path.join(VERIF, "evidence", pid + ".json")
    os.makedirs(os.path.dirname(evidence_path), exist_ok=True)
    inconclusive, violations, known_lines = [], [], []
    known_native = []
    try:
        out = os.path.join(tmp, "result.json")
        tcfg = dict(cfg.get("common", {}), **cfg.get(tier, {}))
        cmd = [GOSYM, "-repo", REPO, "-harness", HARNESS, "-pkgs", ",".join(cfg["pkgs"]), "-run", "^Verif_%s_" % pid,
               "-known", KNOWN, "-out", out, "-tier", tier, "-workers", str(tcfg.get("workers", 16)),
               "-timeout", str(tcfg.get("solver_timeout_ms", 20000))]
        if "maxpaths" in tcfg:
            cmd += ["-maxpaths", str(tcfg["maxpaths"])]
        p = subprocess.run(cmd, env=GOENV, stdout=subprocess.PIPE, stderr=subprocess.STDOUT, text=True)
        if not os.path.exists(out):
            inconclusive.append("engine failed: " + p.stdout[-2000:])
            res = {"harnesses": [], "error": p.stdout[-2000:]}
        else:
            res = json.load(open(out))
        if res.get("error"):
            inconclusive.append("engine: " + res["error"][:1500])
        hs = res.get("harnesses") or []
        known = load_known()
        cexdir = os.path.join(VERIF, "cex", pid)
        shutil.rmtree(cexdir, ignore_errors=True)
        replayed = []
        nwit_ok = nwit = 0
        # ---- translator validation: witnesses of passing paths must pass natively ----
        by_pkg = {}
        for h in hs:
            d = find_harness_dir(h["harness"])
            by_pkg.setdefault(d, []).append(h)
        want_wit = tcfg.get("witnesses", 2)
        for d, hl in by_pkg.items():
            items, names = [], []
            for h in hl:
                if h["harness"] in cfg.get("no_native", []):
                    continue
                for k, w in enumerate((h.get("witnesses") or [])[:want_wit]):
                    f = os.path.join(tmp, "wit-%s-%d.json" % (h["harness"], k))
                    json.dump({"harness": h["harness"], "inputs": w}, open(f, "w"))
                    items.append((h["harness"], f))
                names.append(h["harness"])
            if not items or d is None:
                continue
            rc, outp = native_run(d, [h["harness"] for h in hl], items, tcfg.get("native_timeout", 120))
            cl = classify(rc, outp)
            done = len(re.findall(r"VERIF-REPLAY-DONE", outp))
            nwit += len(items)
            nwit_ok += done
            if cl != "pass":
                inconclusive.append("translator validation: a path the engine found passing does not pass natively (%s) in %s: %s"
                                    % (cl, d, outp[-1500:]))
        # ---- violations: replay natively ----
        for h in hs:
            for u in h.get("unsupported") or []:
                inconclusive.append("%s: unsupported: %s" % (h["harness"], u))
            for u in h.get("inconclusive") or []:
                inconclusive.append("%s: %s" % (h["harness"], u))
            decl = h.get("covers_declared") or []
            for c in decl:
                if not (h.get("covers") or {}).get(c):
                    inconclusive.append("%s: cover point %s not reached (vacuous harness?)" % (h["harness"], c))
            for kh in h.get("known_hits") or []:
                if h["harness"] in cfg.get("crash_native", {}):
                    cl, outp = crash_native(cfg["crash_native"][h["harness"]], kh["assertion"])
                    known_native.append({"harness": h["harness"], "assertion": kh["assertion"], "native": cl, "output": outp[-800:]})
                    if cl == "not-reproduced":
                        inconclusive.append("%s/%s: listed known finding did not reproduce natively (%s)" % (h["harness"], kh["assertion"], cl))
                for tag in kh["tags"]:
                    what = next((k["what"] for k in known if k.get("harness") == h["harness"] and k.get("tag") == tag), "")
                    known_lines.append("KNOWN-FINDING: property=%s %s/%s [%s]: %s" % (pid, h["harness"], kh["assertion"], tag, what))
            for n, v in enumerate(h.get("violations") or []):
                os.makedirs(cexdir, exist_ok=True)
                f = os.path.join(cexdir, "%s-%s-%d.json" % (h["harness"], re.sub(r"\W", "_", v["assertion"]), n))
                d = find_harness_dir(h["harness"])
                rec = dict(v, property=pid, tier=tier)
                json.dump(rec, open(f, "w"), indent=1)
                if h["harness"] in cfg.get("crash_native", {}):
                    cl, outp = crash_native(cfg["crash_native"][h["harness"]], v["assertion"])
                    rec["native_output_tail"] = outp[-1500:]
                elif h["harness"] in cfg.get("no_native", []):
                    cl = "not-replayed"
                else:
                    rc, outp = native_run(d, [x["harness"] for x in by_pkg[d]], [(h["harness"], f)], tcfg.get("replay_timeout", 40))
                    cl = classify(rc, outp)
                    rec["native_output_tail"] = outp[-1200:]
                if cl == "pass" and h["harness"] in cfg.get("schedule_harnesses", []):
                    # the violation needs a particular interleaving: stress the native run a few times, then report it
                    # with the engine's schedule (the native scheduler cannot be forced without hooks in /repo)
                    for _ in range(tcfg.get("schedule_stress_runs", 10)):
                        rc, outp = native_run(d, [x["harness"] for x in by_pkg[d]], [(h["harness"], f)], tcfg.get("replay_timeout", 40))
                        cl = classify(rc, outp)
                        if cl != "pass":
                            break
                    if cl == "pass":
                        cl = "schedule-not-forced"
                    rec["native_output_tail"] = outp[-1200:]
                if cl == "pass" and v["assertion"] in ENGINE_ONLY_ASSERTIONS:
                    # the assertion is about state only the engine observes (verifapi.HeldLocks / Blocked are constants natively)
                    cl = "not-observable-natively"
                rec["native_replay"] = cl
                json.dump(rec, open(f, "w"), indent=1)
                replayed.append((h["harness"], v["assertion"], cl, f))
                confirmed = cl.startswith("assert:") or cl in ("panic", "hang")
                if confirmed or cl in ("not-replayed", "schedule-not-forced", "not-observable-natively"):
                    violations.append((h["harness"], v["assertion"], v.get("message", ""), f, cl))
                else:
                    inconclusive.append("%s/%s: counterexample did not reproduce natively (%s) - encoder or stub suspect; cex kept at %s"
                                        % (h["harness"], v["assertion"], cl, f))
        # ---- evidence ----
        obligations = sum(h["obligations"] for h in hs)
        discharged = sum(h["discharged"] for h in hs)
        samples = []
        for h in hs:
            samples += (h.get("samples") or [])[:2]
        funcs = sorted({f for h in hs for f in (h.get("functions_encoded") or [])
                        if "/internal/verifapi" not in f and ".Verif_" not in f and ".verif" not in f})
        outside = sorted({o for h in hs for o in (h.get("outside_claim") or [])} | set(cfg.get("outside", [])))
        ev = {
            "property_id": pid, "tier": tier, "seed": seed, "level": "model_checking",
            "coverage": {
                "states": max(1, sum(h["paths"] for h in hs)),
                "transitions": max(1, sum(h["instructions"] for h in hs)),
                "traces_validated_against_impl": nwit_ok,
                "samples": samples or [{"note": "no obligation reached"}],
                "explanation": "bounded symbolic execution (own go/ssa interpreter -> SMT-LIB2, z3) of the functions listed; "
                               "states = feasible paths explored, transitions = SSA instructions executed symbolically",
                "obligations": obligations, "discharged": discharged,
                "harnesses": [{"name": h["harness"], "paths": h["paths"], "obligations": h["obligations"],
                               "discharged": h["discharged"], "path_ends": h["path_ends"], "covers": h.get("covers"),
                               "wall_s": round(h["wall_s"], 2), "notes": h.get("notes")} for h in hs],
                "functions_encoded": funcs,
                "bounds": cfg["bounds"].get(tier, cfg["bounds"]) if isinstance(cfg.get("bounds"), dict) else cfg.get("bounds", ""),
                "queries": res.get("solver_queries", 0), "unsat": res.get("solver_unsat", 0), "sat": res.get("solver_sat", 0),
                "unknown": res.get("solver_unknown", 0), "solver_s": round(res.get("solver_s", 0), 2),
                "solver": "z3 4.8.12 (z3 -in, push/pop); queries the incremental core leaves unknown are re-decided by one-shot z3 4.8.12 / z3 5.1.0",
                "oneshot_fallbacks": res.get("solver_oneshot_fallbacks", 0),
                "stubs_used": res.get("stubs_used") or [],
                "known_findings_hit": known_lines,
                "known_findings_native_replay": known_native,
                "counterexamples": [{"harness": a, "assertion": b, "native_replay": c, "file": d} for a, b, c, d in replayed],
                "witness_replays": {"run": nwit, "passed": nwit_ok},
                "inconclusive": inconclusive,
                "outside_claim": outside,
                "load_s": round(res.get("load_s", 0), 1),
            },
            "assumptions": cfg.get("assumptions", []),
            "wall_s": round(time.time() - t0, 2),
            "violations": len(violations),
        }
        json.dump(ev, open(evidence_path, "w"), indent=1)
    finally:
        shutil.rmtree(tmp, ignore_errors=True)
        native_cleanup()
    for l in known_lines:
        print(l)
    summary = "property=%s tier=%s harnesses=%d paths=%d obligations=%d discharged=%d queries=%d wall=%.1fs" % (
        pid, tier, len(hs), sum(h["paths"] for h in hs), obligations, discharged, res.get("solver_queries", 0), time.time() - t0)
    if violations:
        for (hn, an, msg, f, cl) in violations:
            print("VIOLATION property=%s replay=%s harness=%s assertion=%s native=%s :: %s" % (pid, f, hn, an, cl, msg[:200]))
        print("FAIL " + summary)
        return 1
    if inconclusive:
        for r in inconclusive[:20]:
            print("INCONCLUSIVE property=%s reason=%s" % (pid, r.replace("\n", " | ")[:1500]))
        print("INCONCLUSIVE " + summary)
        return 2
    print("OK " + summary)
    return 0


if __name__ == "__main__":
    sys.exit(main())
